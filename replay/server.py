"""Replay server: runs concrete cases against /repo on REAL numpy (the repository's own environment).
Reads one JSON case per line on stdin; answers `REPLAY {json}` per case:
  {"ok": bool, "got": obs, "exp": obs}   ok = the real code's outcome satisfies the executable reference
  {"error": traceback}                   the case could not be run (harness problem, never a verdict)
usage (single case):  /venv/bin/python replay/server.py --case path.json
"""
import json
import os
import sys
import traceback

VERIF = os.path.dirname(os.path.dirname(os.path.abspath(__file__)))
REPO = os.environ.get("VERIF_REPO", "/repo")
sys.path[:0] = [VERIF, REPO]

import numpy as np  # noqa: E402  real numpy
assert not hasattr(np, "ShimUnsupported"), "replay must run on real numpy"
from harness import common  # noqa: E402


def run_case(case):
    try:
        __import__("harness." + case["module"], fromlist=["x"])
        H = common.HARNESSES[case["h"]]
        import warnings
        with warnings.catch_warnings():
            warnings.simplefilter("ignore")
            r = H["conc"](case)
        got, exp = r[0], r[1]
        opts = r[2] if len(r) > 2 else {}
        got, exp = common.norm_obs(got), common.norm_obs(exp)
        ok = common.obs_equal(got, exp, **opts)
        return {"ok": bool(ok), "got": got, "exp": exp}
    except Exception:
        return {"error": traceback.format_exc()}


def _default(o):
    if isinstance(o, np.generic):
        return o.item()
    if isinstance(o, np.ndarray):
        return o.tolist()
    return str(o)


def main():
    if len(sys.argv) > 2 and sys.argv[1] == "--case":
        case = json.load(open(sys.argv[2]))
        if "case" in case and "h" not in case:
            case = case["case"]
        v = run_case(case)
        print(json.dumps(v, default=_default, indent=1))
        sys.exit(0 if v.get("ok") else 1)
    for line in sys.stdin:
        line = line.strip()
        if not line:
            continue
        v = run_case(json.loads(line))
        sys.stdout.write("REPLAY " + json.dumps(v, default=_default) + "\n")
        sys.stdout.flush()


if __name__ == "__main__":
    main()
