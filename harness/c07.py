"""C07 -- row-wise scans and reorderings equal numpy applied to each row.

cumsum / add|subtract|bitwise_xor.accumulate (64-bit vectors: the implementation subtracts per-row offsets through the
XOR column broadcast, so wrap-around must cancel exactly), sort, unique (+counts), diff of order n.
Row lengths symbolic (empty rows anywhere), cells symbolic.
"""
import numpy as np
from . import common, c02
from .common import harness, outcome, mk_ragged, cells

DV = 1000


def run_op(ra, p):
    op = p["op"]
    if op == "cumsum":
        kw = {"dtype": p["cdtype"]} if p.get("cdtype") else {}
        return np.cumsum(ra, axis=-1, **kw) if p.get("via") == "np" else ra.cumsum(axis=-1, **kw)
    if op in ("acc_add", "acc_subtract", "acc_bitwise_xor"):
        return getattr(np, op[4:]).accumulate(ra, axis=-1)
    if op == "sort":
        return ra.sort(axis=-1) if p.get("via") != "np" else ra.sort()
    if op == "unique":
        return np.unique(ra, axis=-1)
    if op == "unique_counts":
        return np.unique(ra, axis=-1, return_counts=True)
    if op == "diff":
        return np.diff(ra, n=p["n"], axis=-1) if p["n"] != 1 or p.get("via") == "np" else np.diff(ra, axis=-1)
    raise ValueError(op)


def _scan(vals, op):
    out = []
    for i, v in enumerate(vals):
        if i == 0:
            out.append(v)
        elif op in ("cumsum", "acc_add"):
            out.append(out[-1] + v)
        elif op == "acc_subtract":
            out.append(out[-1] - v)
        else:
            out.append(out[-1] ^ v)
    return out


def sym(E, p, kf):
    import z3
    from symx import specs
    from npstructures import RaggedArray
    op = p["op"]
    R = E.concretize(E.int("R", 0, p["R"]))
    lens = [E.int(f"l{r}", 0, p["L"]) for r in range(R)]
    S = E.concretize(z3.Sum(lens) if lens else z3.IntVal(0))
    scan = op == "cumsum" or op.startswith("acc_")
    fdt = p.get("dtype") if str(p.get("dtype", "")).startswith("float") else None
    if fdt:
        from . import c01
        data = c01.gen_cells(E, S, fdt)                      # bit patterns; exact IEEE comparisons and arithmetic
        for d in data:
            E.assume(z3.Not(z3.fpIsNaN(np._to_fp(d, np.dtype(fdt)))))       # rows containing NaN are outside the claim (numpy's own unique treats them specially)
    elif scan and op == "acc_bitwise_xor":
        data = [E.bv(f"d{q}", 64) for q in range(S)]
    elif p.get("idt") == "bool":
        data = [E.bool(f"d{q}") for q in range(S)]          # truth values: add.accumulate counts them (int64), row by row
    elif p.get("idt") and p.get("small"):
        data = [E.int(f"d{q}", 0, DV) for q in range(S)]      # small magnitudes of a 64-bit type: the result must keep that type (any float type loses integers)
    elif p.get("idt"):
        data = [E.bv(f"d{q}", np.dtype(p["idt"]).itemsize * 8) for q in range(S)]      # genuine machine integers: the scan wraps, and keeps numpy's element type
    else:
        data = [E.int(f"d{q}", -DV, DV) for q in range(S)]
    if "KF-C07-1" in kf and op.startswith("acc_") and R:
        E.assume(z3.Or(lens[-1] > 0, S == 0))      # open known finding: trailing empty row
    ddt = fdt or p.get("idt") or "int64"
    ra = mk_ragged(RaggedArray, data, lens, ddt)
    got = outcome(lambda: (run_op(ra, p), ra))
    case = dict(p=p, lens=lens, data=data)
    if got["k"] != "tuple":
        return dict(goal=False, got=got, case=case)
    res, after = got["items"]
    conds = [specs.obs_goal(after, dict(k="ragged", flat=data, lens=lens, dtype=ddt))]
    if fdt:
        fp = lambda x: np._to_fp(x, np.dtype(fdt))
        veq = lambda a, b: z3.fpEQ(fp(a), fp(b))
        vle = lambda a, b: z3.fpLEQ(fp(a), fp(b))
        vlt = lambda a, b: z3.fpLT(fp(a), fp(b))
    else:
        veq = lambda a, b: a == b
        vle = lambda a, b: a <= b
        vlt = lambda a, b: a < b
    starts, _ = specs.prefix_starts(lens)
    ends = [s + l for s, l in zip(starts, lens)]

    def inrow(r, q):
        return z3.And(starts[r] <= q, q < ends[r])
    if scan:
        if res["k"] != "ragged" or len(res["flat"]) != S or len(res["lens"]) != R:
            return dict(goal=False, got=got, case=case)
        conds += [specs.eqv(a, b) for a, b in zip(res["lens"], lens)]
        wide = data
        if p.get("idt") == "bool":
            wide = [z3.If(d, 1, 0) for d in data]
        elif p.get("idt"):
            w = np.dtype(p["idt"]).itemsize * 8
            if p.get("cdtype"):
                # dtype=: the sums are accumulated and returned in that type (here the input's own narrow type: they wrap)
                if S and res["dtype"] != p["cdtype"]:
                    return dict(goal=False, got=got, case=case)
            elif not p.get("small"):
                wide = [d if w == 64 else (z3.ZeroExt(64 - w, d) if p["idt"].startswith("u") else z3.SignExt(64 - w, d)) for d in data]
            # a 64-bit integer input keeps its type (every other type loses some of its values); for narrower inputs only the numbers are claimed
            if w == 64 and res["dtype"] != p["idt"]:
                return dict(goal=False, got=got, case=case)
        acc = None
        data_, data = data, wide
        for q in range(S):
            is_start = z3.Or(*[z3.And(starts[r] == q, lens[r] > 0) for r in range(R)])
            if acc is None:
                acc = data[q]
            else:
                step = acc + data[q] if op in ("cumsum", "acc_add") else acc - data[q] if op == "acc_subtract" else acc ^ data[q]
                acc = z3.If(is_start, data[q], step)
            got_q = res["flat"][q]
            if z3.is_bv(got_q) and z3.is_bv(acc) and got_q.size() < acc.size():
                # a result in a narrower type than numpy's: compared by number (it differs wherever the sum does not fit)
                got_q = (z3.ZeroExt if str(res["dtype"]).startswith("u") else z3.SignExt)(acc.size() - got_q.size(), got_q)
            conds.append(specs.eqv(got_q, acc))
        data = data_
    elif op == "sort":
        if res["k"] != "ragged" or len(res["flat"]) != S or len(res["lens"]) != R:
            return dict(goal=False, got=got, case=case)
        g = res["flat"]
        conds += [specs.eqv(a, b) for a, b in zip(res["lens"], lens)]
        for r in range(R):
            for q in range(S):
                if q + 1 < S:
                    conds.append(z3.Implies(z3.And(inrow(r, q), inrow(r, q + 1)), vle(g[q], g[q + 1])))
                cnt_in = z3.Sum([z3.If(z3.And(inrow(r, t), veq(data[t], data[q])), 1, 0) for t in range(S)])
                cnt_out = z3.Sum([z3.If(z3.And(inrow(r, t), veq(g[t], data[q])), 1, 0) for t in range(S)])
                conds.append(z3.Implies(inrow(r, q), cnt_in == cnt_out))
    elif op in ("unique", "unique_counts"):
        if op == "unique_counts":
            if res["k"] != "tuple" or len(res["items"]) != 2:
                return dict(goal=False, got=got, case=case)
            u, c = res["items"]
        else:
            u, c = res, None
        if u["k"] != "ragged" or len(u["lens"]) != R or (c is not None and (c["k"] != "ragged" or len(c["flat"]) != len(u["flat"]) or len(c["lens"]) != R)):
            return dict(goal=False, got=got, case=case)
        g, ol = u["flat"], [specs.I(x) for x in u["lens"]]
        N = len(g)
        ostarts, otot = specs.prefix_starts(ol)
        conds.append(otot == N)
        conds += [l >= 0 for l in ol]
        if c is not None:
            conds += [specs.eqv(a, b) for a, b in zip(c["lens"], ol)]

        def inout(r, q):
            return z3.And(ostarts[r] <= q, q < ostarts[r] + ol[r])
        for r in range(R):
            for q in range(N):
                if q + 1 < N:
                    conds.append(z3.Implies(z3.And(inout(r, q), inout(r, q + 1)), vlt(g[q], g[q + 1])))
                conds.append(z3.Implies(inout(r, q), z3.Or(*[z3.And(inrow(r, t), veq(data[t], g[q])) for t in range(S)]) if S else False))
                if c is not None:
                    conds.append(z3.Implies(inout(r, q), specs.eqv(c["flat"][q], z3.Sum([z3.If(z3.And(inrow(r, t), veq(data[t], g[q])), 1, 0) for t in range(S)]) if S else z3.IntVal(0))))
            for t in range(S):
                conds.append(z3.Implies(inrow(r, t), z3.Or(*[z3.And(inout(r, q), veq(g[q], data[t])) for q in range(N)]) if N else False))
    elif op == "diff":
        n = p["n"]
        if res["k"] != "ragged":
            return dict(goal=False, got=got, case=case)
        D = specs.store_of(data)
        coef = {0: [1], 1: [-1, 1], 2: [1, -2, 1], 3: [-1, 3, -3, 1]}[n]
        explens = [z3.If(l - n > 0, l - n, 0) for l in lens]

        def cell(k, c):
            return z3.Sum([co * z3.Select(D, starts[k] + c + i) for i, co in enumerate(coef)])
        conds += specs.ragged_matches(res["flat"], res["lens"], explens, cell)
    return dict(goal=specs.conj(conds), got=got, case=case)


def kf_match(case):
    if "lens" not in case or "p" not in case or "op" not in case["p"]:
        return []
    p = case["p"]
    if p["op"].startswith("acc_") and case["lens"] and case["lens"][-1] == 0 and sum(case["lens"]) > 0:
        return ["KF-C07-1"]
    return []


def conc(case):
    from npstructures import RaggedArray
    p, lens, data = case["p"], case["lens"], case["data"]
    op = p["op"]
    scan = op == "cumsum" or op.startswith("acc_")
    if op == "acc_bitwise_xor":
        data = [d - (1 << 64) if d >= 1 << 63 else d for d in data]
    fdt = p.get("dtype") if str(p.get("dtype", "")).startswith("float") else None
    if fdt:
        fvals = common.typed(data, fdt).tolist()
        frows = common.rows_of(fvals, lens)
        ra = mk_ragged(RaggedArray, data, lens, fdt)
        got = outcome(lambda: (run_op(ra, p), ra))
        pat = lambda rs: common.ref_ragged([common.cells(np.array(r, dtype=fdt)) for r in rs], fdt)
        same = pat(frows)
        if op == "sort":
            exp = pat([sorted(r) for r in frows])
        elif op == "unique":
            exp = pat([sorted(set(x + 0.0 for x in r)) for r in frows])
        elif op == "unique_counts":
            us = [sorted(set(x + 0.0 for x in r)) for r in frows]
            exp = dict(k="tuple", items=[pat(us), common.ref_ragged([[sum(1 for x in r if x == v) for v in u] for r, u in zip(frows, us)], "int64")])
        return got, dict(k="tuple", items=[exp, same]), {"float_eq": True}
    idt = p.get("idt")
    if idt == "bool":
        rows = common.rows_of([bool(d) for d in data], lens)
        ra = mk_ragged(RaggedArray, [bool(d) for d in data], lens, "bool")
        got = outcome(lambda: (run_op(ra, p), ra))
        return got, dict(k="tuple", items=[common.ref_ragged([_scan([int(x) for x in r], op) for r in rows], "int64"), common.ref_ragged(rows, "bool")]), {"dtype_matters": False}
    if idt and not idt.startswith("u"):
        w = np.dtype(idt).itemsize * 8
        data = [d - (1 << w) if d >= 1 << (w - 1) else d for d in data]
    rows = common.rows_of(data, lens)
    ra = mk_ragged(RaggedArray, data, lens, idt or "int64")
    got = outcome(lambda: (run_op(ra, p), ra))
    same = common.ref_ragged(rows, idt or "int64")
    if scan and idt and p.get("cdtype"):
        w = np.dtype(idt).itemsize * 8
        wrap = (lambda v: v % (1 << w)) if idt.startswith("u") else (lambda v: (v + (1 << (w - 1))) % (1 << w) - (1 << (w - 1)))
        exp = common.ref_ragged([[wrap(v) for v in _scan(r, op)] for r in rows], p["cdtype"])
        return got, dict(k="tuple", items=[exp, same]), {"dtype_matters": bool(data)}
    elif scan and idt:
        wrap = (lambda v: v % (1 << 64)) if idt.startswith("u") else (lambda v: (v + (1 << 63)) % (1 << 64) - (1 << 63))
        exp = common.ref_ragged([[wrap(v) for v in _scan(r, op)] for r in rows], "uint64" if idt.startswith("u") else "int64")
        if np.dtype(idt).itemsize < 8:
            return got, dict(k="tuple", items=[exp, same]), {"dtype_matters": False}
    elif scan:
        exp = common.ref_ragged([_scan(r, op) for r in rows], "int64")
    elif op == "sort":
        exp = common.ref_ragged([sorted(r) for r in rows], "int64")
    elif op == "unique":
        exp = common.ref_ragged([sorted(set(r)) for r in rows], "int64")
    elif op == "unique_counts":
        us = [sorted(set(r)) for r in rows]
        exp = dict(k="tuple", items=[common.ref_ragged(us, "int64"), common.ref_ragged([[r.count(v) for v in u] for r, u in zip(rows, us)], "int64")])
    elif op == "diff":
        out = []
        for r in rows:
            for _ in range(p["n"]):
                r = [b - a for a, b in zip(r, r[1:])]
            out.append(r)
        exp = common.ref_ragged(out, "int64")
    return got, dict(k="tuple", items=[exp, same])


def jobs(tier, seed):
    q = tier == "quick"
    base = dict(R=3 if q else 4, L=3 if q else 4)
    scan = dict(base) if q else dict(base, L=3)          # scans: the offset arithmetic over 16 cells exceeds the per-query solver budget
    out = [dict(scan, op="cumsum"), dict(scan, op="cumsum", via="np"), dict(scan, op="acc_add"), dict(scan, op="acc_subtract"),
           dict(scan, op="acc_bitwise_xor", R=3),          # 64-bit vectors: 45 s per path at four rows dict(base, op="sort"), dict(base, op="sort", via="np"),
           dict(base, op="unique", R=3, L=3), dict(base, op="unique_counts", R=3, L=3),
           dict(base, op="diff", n=0, via="np"), dict(base, op="diff", n=1), dict(base, op="diff", n=1, via="np"), dict(base, op="diff", n=2), dict(base, op="diff", n=3, L=4)]
    for op in ("sort", "unique", "unique_counts"):
        out.append(dict(base, op=op, dtype="float16", R=2, L=3))
    for idt in ("uint8", "int32", "int8"):
        out.append(dict(base, op="cumsum", idt=idt, R=2, L=3))
    out.append(dict(scan, op="cumsum", idt="uint64", small=True))
    for via in ("np", "method"):
        for idt in ("int8", "uint8"):
            out.append(dict(base, op="cumsum", idt=idt, cdtype=idt, via=via, R=2, L=3))
    out.append(dict(scan, op="acc_add", idt="uint64", small=True))
    out.append(dict(base, op="acc_add", idt="bool", R=3, L=3))
    if not q:
        out.append(dict(base, op="cumsum", idt="uint64", R=2, L=2))      # full 64-bit range, wrapping
    return [dict(h="C07.rowwise", p=p) for p in out]


harness("C07.rowwise", jobs, sym, conc)


# ------------------------------------------------------------------ the same operations on a lazily selected operand (relational)
def _view_ops():
    return {"cumsum": lambda d: np.cumsum(d, axis=-1), "cumsum_m": lambda d: d.cumsum(axis=-1), "acc_add": lambda d: np.add.accumulate(d, axis=-1), "sort": lambda d: d.sort(axis=-1),
            "unique_counts": lambda d: np.unique(d, axis=-1, return_counts=True), "diff": lambda d: np.diff(d, axis=-1), "diff2": lambda d: np.diff(d, n=2, axis=-1)}


def sym_onview(E, p, kf):
    import z3
    from symx import specs
    from . import programs
    from npstructures import RaggedArray
    R = E.concretize(E.int("R", 0, p["R"]))
    lens = [E.concretize(E.int(f"l{r}", 0, p["L"])) for r in range(R)]      # shapes forked: the selected rows are then computed on plain lists
    S = sum(lens)
    data = [E.int(f"d{q}", -50, 50) for q in range(S)]
    P = programs.ParamStore(E, B=2)
    case = dict(p=p, lens=lens, data=data, params=P.values)
    conc_ = lambda t: (E.branch(t) if z3.is_bool(t) else E.concretize(t)) if z3.is_expr(t) else t
    od, of, oa = programs.on_view(RaggedArray, lens, data, "int64", p["pre"], _view_ops()[p["op"]], P, conc=conc_)
    if od["k"] != of["k"]:
        return dict(goal=False, got=od, case=case)
    goal = specs.conj([specs.obs_goal(od, of) if od["k"] != "raise" else True, specs.obs_goal(oa, dict(k="ragged", flat=data, lens=lens, dtype="int64"))])
    return dict(goal=goal, got=od, case=case)


def conc_onview(case):
    from . import programs
    from npstructures import RaggedArray
    p = case["p"]
    P = programs.ParamStore(None, dict(case["params"]), B=2)
    od, of, oa = programs.on_view(RaggedArray, case["lens"], case["data"], "int64", p["pre"], _view_ops()[p["op"]], P)
    if od["k"] == "raise" and of["k"] == "raise":
        of = common.refused()
    return od, of, {"float_eq": True}


def jobs_onview(tier, seed):
    from . import programs
    q = tier == "quick"
    out = []
    for op in _view_ops():
        for pre in programs.VIEW_STEPS:
            if q and pre in ("colstepm2", "colslice_a") and op not in ("sum0", "concat", "cumsum"):
                continue
            if pre == "rowlist3":
                out.append(dict(R=3, L=1 if q else 2, pre=pre, op=op))      # three symbolic row positions: 216 index triples per shape
                continue
            out.append(dict(R=3, L=2, pre=pre, op=op) if q else dict(R=3, L=3, pre=pre, op=op))
    return [dict(h="C07.onview", p=p) for p in out]


harness("C07.onview", jobs_onview, sym_onview, conc_onview)
