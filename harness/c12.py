"""C12 -- Counter totals equal the number of occurrences seen so far.

State families: initial value default 0 | scalar c | per-key array.  From each: one or two count(batch) calls with symbolic samples
(keys, non-keys colliding with a key's bucket, non-keys in empty buckets, repeats, empty batch); then every key is read back.
after[k] = initial[k] + number of samples equal to k.  Relational variants: split into two calls vs one call; two moduli.
"""
import numpy as np
from . import common
from .common import harness, outcome, arr, pyint

KB = 1 << 62


def run(c, p):
    from npstructures import Counter
    keys = arr(c["keys"], p.get("kdtype", "int64"))
    kw = {} if c["mod"] is None else {"mod": c["mod"]}
    if p["init"] == "default":
        ctr = Counter(keys, **kw)
    elif p["init"] == "scalar":
        ctr = Counter(keys, pyint(c["init"][0]), **kw)
    else:
        init_in = arr(c["init"], "int64")
        ctr = Counter(keys, init_in, **kw)
    if p.get("derived"):
        ctr = np.zeros_like(ctr)          # a counter derived from a counter: same keys and modulus, counts start at zero
    for b in c["batches"]:
        if p.get("aslist") and len(b):
            ctr.count([pyint(x) for x in b])
        else:
            ctr.count(arr(b, "int64"))
    if p["init"] == "array" and p.get("inputs"):
        return ctr[keys], init_in, keys          # the arrays handed to the constructor still hold what the caller put there
    return ctr[keys]


def sym(E, p, kf):
    import z3
    from symx import specs
    n = E.concretize(E.int("n", p.get("nmin", 1), p["n"]))
    KB = p.get("kb", globals()["KB"])
    if p.get("fixed_keys"):
        keys, n = list(p["fixed_keys"]), len(p["fixed_keys"])      # larger batches over a concrete key set: bucket layout fixed, samples symbolic
    else:
        keys = [E.int(f"k{i}", -KB, KB) for i in range(n)]
    if n > 1 and not p.get("fixed_keys"):
        E.assume(z3.Distinct(*keys))
    mod = E.choose("mod", p["mods"] if p.get("mods") else list(range(1, p["modmax"] + 1)) + ([None] if p.get("defaultmod", True) else []))
    if p["init"] == "default":
        init = [0]
    elif p["init"] == "scalar":
        init = [E.int("c0", -5, 5)]
        if p.get("nonzero"):
            E.assume(init[0] != 0)
    else:
        init = [E.int(f"c{i}", -5, 5) for i in range(n)]
    batches = []
    for b in range(p["batches"]):
        ns = E.concretize(E.int(f"ns{b}", 0, p["ns"]))
        batches.append([E.int(f"s{b}_{i}", -KB, KB) for i in range(ns)])
        if p.get("ns_exact"):
            E.assume(z3.BoolVal(ns == p["ns"]))
    c = dict(keys=keys, mod=mod, init=init, batches=batches)
    got = outcome(lambda: run(c, p))
    case = dict(p=p, c=c)
    exp = []
    for i, k in enumerate(keys):
        t = init[i] if p["init"] == "array" else init[0]
        if p.get("derived"):
            t = 0
        for b in batches:
            for s in b:
                t = t + z3.If(s == k, 1, 0)
        exp.append(t)
    want = dict(k="array", flat=exp, shape=[n], dtype="*")
    if p["init"] == "array" and p.get("inputs"):
        want = dict(k="tuple", items=[want, dict(k="array", flat=list(init), shape=[n], dtype="*"), dict(k="array", flat=list(keys), shape=[n], dtype="*")])
    return dict(goal=specs.obs_goal(got, want), got=got, case=case)


def conc(case):
    p, c = case["p"], case["c"]
    got = outcome(lambda: run(c, p))
    tot = []
    for i, k in enumerate(c["keys"]):
        t = c["init"][i] if p["init"] == "array" else c["init"][0]
        if p.get("derived"):
            t = 0
        t += sum(1 for b in c["batches"] for s in b if s == k)
        tot.append(t)
    want = common.ref_array(tot, [len(tot)], "*")
    if p["init"] == "array" and p.get("inputs"):
        want = dict(k="tuple", items=[want, common.ref_array(list(c["init"]), [len(tot)], "*"), common.ref_array(list(c["keys"]), [len(tot)], "*")])
    return got, want, {"dtype_matters": False}


def jobs(tier, seed):
    q = tier == "quick"
    out = []
    for init in ("default", "scalar", "array"):
        out.append(dict(n=2, modmax=2 if q else 3, ns=2, batches=1, init=init))
        out.append(dict(n=2, modmax=2, ns=1 if q else 2, batches=2, init=init, defaultmod=not q))
    out.append(dict(n=2, modmax=2, ns=2, batches=1, init="default", aslist=True))
    out.append(dict(n=2, modmax=2, ns=2, batches=1, init="array", inputs=True))
    out.append(dict(n=3, fixed_keys=[1, 2, 3], kb=9, modmax=7, ns=2, batches=1, init="array", inputs=True))
    out.append(dict(n=1, modmax=2, ns=3, batches=1, init="default"))
    # concrete key sets (3-4 keys, with and without bucket collisions under the moduli 1..7 and the default), symbolic samples around them
    for fk, init in (([1, 2, 3], "default"), ([8, 1, 15], "array"), ([3, -4, 10, 5], "scalar")):
        out.append(dict(n=len(fk), fixed_keys=fk, kb=16, modmax=7, ns=3 if q else 4, batches=1, init=init))
    out.append(dict(n=3, fixed_keys=[1, 2, 3], kb=9, modmax=7, ns=2, batches=2, init="default"))
    # buckets of three, two and one key under one modulus; narrow key dtypes with bucket numbers beyond half the dtype's range
    out.append(dict(n=6, fixed_keys=[0, 7, 14, 1, 8, 2], kb=16, mods=[7], ns=3, batches=1, init="default"))
    out.append(dict(n=2, fixed_keys=[130, 7], kb=140, mods=[200, 131, None], ns=2, batches=1, init="default", kdtype="uint8"))
    out.append(dict(n=2, fixed_keys=[100, -3], kb=110, mods=[120, None], ns=2, batches=1, init="array", kdtype="int8"))
    out.append(dict(n=3, fixed_keys=[1, 5, 9], kb=12, mods=[11, 4, None], ns=2, batches=1, init="array", derived=True))
    out.append(dict(n=2, modmax=3, ns=2, batches=1, init="default", derived=True))
    out.append(dict(n=2, fixed_keys=[18446744073709551615, 5], kb=8, mods=[3, None], ns=2, batches=1, init="default", kdtype="uint64"))          # a key above 2^63, samples around zero
    if not q:
        out.append(dict(n=3, modmax=2, ns=2, batches=1, init="default"))
        out.append(dict(n=2, modmax=2, ns=3, batches=1, init="array"))
    return [dict(h="C12.count", p=p) for p in out]


harness("C12.count", jobs, sym, conc)
