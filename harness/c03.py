"""C03 -- assignment writes exactly the addressed cells and nothing else.

ra[index] = value for the C02 selector grid (non-repeating row selectors) x value kinds
  scalar | flat (1-D array with one value per addressed cell) | column ((K,1) array, one value per selected row)
  | ragged (RaggedArray of the selection's shape) | ragged_bad (RaggedArray with different row lengths: must be refused)
and assignment through a boolean ragged mask (scalar / one value per true cell).
Post-state observed as the whole buffer and all row lengths.
Oracle 1: new[p] = value(k, c) if p is the source position of addressed (row k, column c) else old[p]; lengths unchanged.
Oracle 2: the same on python lists via ragged_ix.ref_addresses.
"""
import numpy as np
from . import common, ragged_ix, c02
from .common import harness, outcome, mk_ragged, pyint, arr


LAZY_VALUE = [False]


def build_value(RaggedArray, vk, vals, vlens, K):
    if vk == "scalar":
        return pyint(vals[0])
    if vk == "flat":
        return arr(vals, "int64")
    if vk == "list":
        return [pyint(v) for v in vals]
    if vk == "column":
        return arr(vals, "int64").reshape(-1, 1)
    if vk in ("ragged", "ragged_bad"):
        if LAZY_VALUE[0]:
            # the value is itself a pending selection (rows 1.. of a larger array): same rows, other buffer offsets
            return RaggedArray(arr([0] + list(vals), "int64"), arr([1] + list(vlens), "int64"))[1:]
        return RaggedArray(arr(vals, "int64"), arr(vlens, "int64"))
    raise ValueError(vk)


def do_set(RaggedArray, ra, rs, cs, vk, vals, vlens, K):
    ra[ragged_ix.build_index(rs, cs)] = build_value(RaggedArray, vk, vals, vlens, K)
    return ra


def sym(E, p, kf):
    import z3
    from symx import specs
    from npstructures import RaggedArray
    R, lens, S, data = c02.gen_ragged(E, p)
    B = p["B"]
    rs = c02.gen_rowsel(E, p, R, B)
    cs = c02.gen_colsel(E, p, B)
    vk = p["vk"]
    LAZY_VALUE[0] = bool(p.get("lazy_value"))
    mkv = (lambda n: E.int(n, -c02.DV, c02.DV)) if vk != "column" else (lambda n: E.bv(n, 64))
    if vk == "column":
        data = [E.bv(f"b{q}", 64) for q in range(S)]     # the XOR broadcast works on bit patterns
    if rs["t"] in ("list", "array") and len(rs["v"]) > 1:
        # non-repeating row selectors (numpy leaves the result of repeated targets unspecified)
        norm = [z3.If(v < 0, v + R, v) for v in rs["v"]]
        E.assume(z3.Distinct(*norm))
    must_refuse, rowterms, geo = ragged_ix.z3_model(E, lens, rs, cs)
    K = len(rowterms)
    kind = ragged_ix.result_kind(rs, cs)
    tot = z3.Sum([g[2] for g in geo]) if geo else z3.IntVal(0)
    vlens = None
    if vk == "scalar":
        vals = [E.int("v0", -c02.DV, c02.DV)]
    elif vk == "column":
        if kind != "ragged":
            raise ValueError("column value needs a ragged selection")
        vals = [mkv(f"v{k}") for k in range(K)]
        E.assume(K != 1)       # a (1,1) value is numpy's scalar broadcast, covered by 'scalar'
    elif vk in ("flat", "list"):
        if must_refuse is not False:
            E.assume(z3.Not(must_refuse) if must_refuse is not True else False)
        N = E.concretize(tot)
        vals = [E.int(f"v{k}", -c02.DV, c02.DV) for k in range(N)]
        if kind == "ragged":
            E.assume(N != 1)   # size-1 arrays broadcast like scalars
    elif vk == "ragged":
        if must_refuse is not False:
            E.assume(z3.Not(must_refuse) if must_refuse is not True else False)
        N = E.concretize(tot)
        vals = [E.int(f"v{k}", -c02.DV, c02.DV) for k in range(N)]
        vlens = [g[2] for g in geo]
    elif vk == "ragged_bad":
        if must_refuse is not False:
            E.assume(z3.Not(must_refuse) if must_refuse is not True else False)
        vlens = [E.int(f"vl{k}", 0, p["L"]) for k in range(K)]
        E.assume(z3.Or(*[vl != g[2] for vl, g in zip(vlens, geo)]) if K else False)
        N = E.concretize(z3.Sum(vlens) if vlens else z3.IntVal(0))
        vals = [E.int(f"v{k}", -c02.DV, c02.DV) for k in range(N)]
    else:
        raise ValueError(vk)
    ra = mk_ragged(RaggedArray, data, lens)
    got = outcome(lambda: do_set(RaggedArray, ra, rs, cs, vk, vals, vlens, K))
    case = dict(lens=lens, data=data, rs=rs, cs=cs, vk=vk, vals=vals, vlens=vlens, lazy_value=bool(p.get("lazy_value")))
    if vk == "ragged_bad":
        # refused, and (observed through a second handle) nothing written
        return dict(goal=(got["k"] == "raise"), got=got, case=case)
    if got["k"] == "raise":
        return dict(goal=must_refuse if must_refuse is not False else False, got=got, case=case)
    conds = [z3.Not(must_refuse) if must_refuse not in (False, True) else (must_refuse is False)]
    if got["k"] != "ragged" or len(got["flat"]) != S or len(got["lens"]) != R:
        return dict(goal=False, got=got, case=case)
    conds += [specs.eqv(a, b) for a, b in zip(got["lens"], lens)]
    # expected post-state
    ostart = z3.IntVal(0)
    new = list(data)
    Cmax = p["L"]
    for k, (st, first, cnt, step) in enumerate(geo):
        for c in range(Cmax):
            if vk == "scalar":
                v = vals[0]
            elif vk == "column":
                v = vals[k]
            else:
                v = specs.select_chain(vals, ostart + c) if vals else z3.IntVal(0)
            if vk == "column" and S:
                v = specs.lift(v, data[0].sort())
            src = st + first + c * step
            for q in range(S):
                new[q] = z3.If(z3.And(c < cnt, src == q), v, new[q])
        ostart = ostart + cnt
    conds += [specs.eqv(g, e) for g, e in zip(got["flat"], new)]
    return dict(goal=specs.conj(conds), got=got, case=case)


def conc(case):
    from npstructures import RaggedArray
    lens, data, rs, cs, vk, vals, vlens = (case[k] for k in ("lens", "data", "rs", "cs", "vk", "vals", "vlens"))
    LAZY_VALUE[0] = bool(case.get("lazy_value"))
    rows = common.rows_of(data, lens)
    ra = mk_ragged(RaggedArray, data, lens)
    try:
        addr = ragged_ix.ref_addresses(lens, rs, cs)
    except ragged_ix.Refuse:
        addr = None
    K = len(addr) if addr is not None else 0
    got = outcome(lambda: do_set(RaggedArray, ra, rs, cs, vk, vals, vlens, K))
    if addr is None or vk == "ragged_bad":
        return got, common.refused()
    new = [list(r) for r in rows]
    n = 0
    for k, a in enumerate(addr):
        for (r, c) in a:
            new[r][c] = vals[0] if vk == "scalar" else vals[k] if vk == "column" else vals[n]
            n += 1
    return got, common.ref_ragged(new, "int64")


# ------------------------------------------------------------------ boolean ragged mask assignment
def sym_mask(E, p, kf):
    import z3
    from symx import specs
    from npstructures import RaggedArray
    R, lens, S, data = c02.gen_ragged(E, p)
    bits = [E.bool(f"m{q}") for q in range(S)]
    vk = p["vk"]
    if vk == "scalar":
        vals = [E.int("v0", -c02.DV, c02.DV)]
    else:
        N = E.concretize(specs.count_true(bits))
        E.assume(N != 1)
        vals = [E.int(f"v{k}", -c02.DV, c02.DV) for k in range(N)]
    ra = mk_ragged(RaggedArray, data, lens)

    def run():
        mask = RaggedArray(arr(bits, "bool"), arr(lens, "int64"))
        ra[mask] = pyint(vals[0]) if vk == "scalar" else arr(vals, "int64")
        return ra
    got = outcome(run)
    case = dict(lens=lens, data=data, bits=bits, vk=vk, vals=vals)
    if got["k"] != "ragged" or len(got["flat"]) != S:
        return dict(goal=False, got=got, case=case)
    conds = [specs.eqv(a, b) for a, b in zip(got["lens"], lens)]
    pref = z3.IntVal(0)
    for q in range(S):
        v = vals[0] if vk == "scalar" else (specs.select_chain(vals, pref) if vals else z3.IntVal(0))
        conds.append(specs.eqv(got["flat"][q], z3.If(bits[q], v, data[q])))
        pref = pref + z3.If(bits[q], 1, 0)
    return dict(goal=specs.conj(conds), got=got, case=case)


def conc_mask(case):
    from npstructures import RaggedArray
    lens, data, bits, vk, vals = (case[k] for k in ("lens", "data", "bits", "vk", "vals"))
    ra = mk_ragged(RaggedArray, data, lens)

    def run():
        mask = RaggedArray(arr(bits, "bool"), arr(lens, "int64"))
        ra[mask] = vals[0] if vk == "scalar" else arr(vals, "int64")
        return ra
    got = outcome(run)
    new, n = list(data), 0
    for q, b in enumerate(bits):
        if b:
            new[q] = vals[0] if vk == "scalar" else vals[n]
            n += 1
    return got, common.ref_ragged(common.rows_of(new, lens), "int64")


def jobs(tier, seed):
    q = tier == "quick"
    base = dict(R=3, L=3, B=3 if q else 4)          # thorough widens bounds, steps and selector kinds; a fourth row is added by dedicated jobs only
    out = []
    sl = dict(rk="slice", rstep=None, rpres=[(1, 0)], RB=3, R=2 if q else 3)
    rowkinds = [dict(rk="all"), dict(rk="int"), dict(rk="mask"), dict(rk="list", k=2), sl]
    if not q:
        rowkinds += [dict(rk="ellipsis"), dict(rk="slice", rstep=-1, rpres=[(1, 0), (0, 1)], RB=3, R=3)]
    csteps = [None, -1, 2] + ([] if q else [1, -2])
    for rk in rowkinds:
        ragged_sel = rk["rk"] != "int"
        simple = rk["rk"] in ("all", "list")
        for vk in ["scalar", "flat"] + (["ragged", "ragged_bad"] if ragged_sel else ["list"]):
            out.append(dict(dict(base, ck="none", vk=vk), **rk))
        out.append(dict(dict(base, ck="int", vk="scalar"), **rk))
        if ragged_sel:
            out.append(dict(dict(base, ck="int", vk="flat"), **rk))
        for s in csteps:
            vks = ["scalar"]
            if s in (None, -1) or not q:
                vks.append("flat")
            if ragged_sel and (s == -1 or not q):
                vks.append("ragged")
            for vk in vks:
                out.append(dict(dict(base, ck="slice", cstep=s, vk=vk), **rk))
        if ragged_sel and (simple or not q):
            out.append(dict(dict(base, ck="slice", cstep=-1, vk="ragged_bad", R=2), **rk))
    # column-vector values go through the XOR broadcast: cells as 64-bit vectors, smaller structure
    colbase = dict(base, R=2, L=2, vk="column")          # 64-bit vectors through the XOR broadcast: kept at the quick size (minutes per job beyond it)
    for rk in [dict(rk="all"), dict(rk="list", k=2)] + ([] if q else [dict(rk="mask")]):
        out.append(dict(dict(colbase, ck="none"), **rk))
        for s in (None, -1) if q else (None, -1, 2):
            out.append(dict(dict(colbase, ck="slice", cstep=s), **rk))
    # permutations of four rows (a row list that starts with the lowest and ends with the highest row still is not a contiguous block)
    for vk in ("ragged", "flat", "scalar"):
        out.append(dict(base, R=4, L=2, ck="none", vk=vk, rk="list", k=4, B=4))
    for rk in (dict(rk="all"), dict(rk="list", k=2), dict(rk="mask")):
        out.append(dict(dict(base, ck="none", vk="ragged", lazy_value=True), **rk))
        out.append(dict(dict(base, ck="slice", cstep=None, vk="ragged", lazy_value=True, R=2), **rk))
    out.append(dict(base, ck="none", vk="ragged_bad", lazy_value=True, rk="all", R=2))
    for ck, extra in (("int", {}), ("slice", dict(cstep=None)), ("slice", dict(cstep=-1))):
        for vk in ("scalar", "flat"):
            out.append(dict(dict(base, ck=ck, vk=vk, rk="ellipsis", R=2), **extra))          # ra[..., cols] = value
    out.append(dict(colbase, R=4, L=2 if q else 3, ck="none", rk="list", k=4, B=4))
    out.append(dict(base, R=4, L=2, ck="slice", cstep=None, vk="ragged", rk="list", k=3, B=4))
    js = [dict(h="C03.setitem", p=p) for p in out]
    js += [dict(h="C03.maskset", p=dict(R=3 if q else 4, L=3, vk=vk)) for vk in ("scalar", "flat")]
    return js


harness("C03.setitem", jobs, sym, conc)
harness("C03.maskset", lambda t, s: [], sym_mask, conc_mask)
