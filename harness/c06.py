"""C06 -- a derived array behaves exactly like a freshly built equal array.

The quantifier is over programs: the program *skeleton* (step kinds) is enumerated, its parameters and the input array are symbolic.
For d = step_k(... step_1(a)) and a probe X:  X(d) must equal X(f) where f = RaggedArray(copy of d's cells, d's row lengths) is built from a
second evaluation of the same skeleton on the same input (so that observing does not disturb d).  For writing probes, additionally the
source array a must be unchanged (unless the skeleton is the aliasing form a[...]).
"""
import itertools
import numpy as np
from . import common, programs
from .common import harness, outcome, mk_ragged, obs_any, obs_ragged, cells


def run(RaggedArray, lens, data, steps, pk, P):
    a = mk_ragged(RaggedArray, data, lens)
    d = programs.derive(a, steps, P)
    a2 = mk_ragged(RaggedArray, data, lens)
    d2 = programs.derive(a2, steps, P)
    o2 = obs_ragged(d2)
    f = RaggedArray(common.arr(o2["flat"], "int64"), common.arr(o2["lens"], "int64"))
    od = outcome(lambda: programs.probe(d, pk, P))
    of = outcome(lambda: programs.probe(f, pk, P))
    oa = obs_ragged(a) if pk in programs.WRITE_PROBES else {"k": "none"}
    return od, of, oa


def sym(E, p, kf):
    import z3
    from symx import specs
    from npstructures import RaggedArray
    R = E.concretize(E.int("R", 0, p["R"]))
    lens = [E.int(f"l{r}", 0, p["L"]) for r in range(R)]
    S = E.concretize(z3.Sum(lens) if lens else z3.IntVal(0))
    data = [E.int(f"d{q}", -50, 50) for q in range(S)]
    P = programs.ParamStore(E, B=p["B"])
    steps, pk = p["steps"], p["probe"]
    case = dict(p=p, lens=lens, data=data, params=P.values)
    try:
        od, of, oa = run(RaggedArray, lens, data, steps, pk, P)
    except Exception as ex:        # the derivation itself failed: every skeleton here is well-typed, so this is a violation candidate
        return dict(goal=False, got=dict(k="raise", exc=type(ex).__name__), case=case)
    got = dict(k="tuple", items=[od, oa])
    if od["k"] != of["k"]:
        return dict(goal=False, got=got, case=case)
    conds = [specs.obs_goal(od, of)]
    if od["k"] == "raise":
        conds = [True]
    if pk in programs.WRITE_PROBES and steps != ["ellipsis"] and "ellipsis" not in steps[-1:]:
        conds.append(specs.obs_goal(oa, dict(k="ragged", flat=data, lens=lens, dtype="int64")))
    return dict(goal=specs.conj(conds), got=got, case=case)


def conc(case):
    from npstructures import RaggedArray
    p = case["p"]
    P = programs.ParamStore(None, dict(case["params"]), B=p["B"])
    try:
        od, of, oa = run(RaggedArray, case["lens"], case["data"], p["steps"], p["probe"], P)
    except Exception as ex:
        return dict(k="raise", exc=type(ex).__name__, msg=str(ex)[:100]), dict(k="any-value")
    exp_a = common.ref_ragged(common.rows_of(case["data"], case["lens"]), "int64") if (p["probe"] in programs.WRITE_PROBES and "ellipsis" not in p["steps"][-1:]) else dict(k="any")
    if od["k"] == "raise" and of["k"] == "raise":
        of = common.refused()
    return dict(k="tuple", items=[od, oa]), dict(k="tuple", items=[of, exp_a]), {"float_eq": True}


D1 = ["rowslice_a", "rowslice_b", "rowrev", "rowstep2", "rowlist", "mask", "colslice_a", "colslice_b", "colrev", "colstep2", "colstepm2",
      "addone", "concat", "concat1", "sort", "cumsum", "diff", "where", "ellipsis"]
PROBES_Q = ["read", "rowint", "elem", "rowslice", "colslice", "colrev", "ufunc", "rowsum", "set_row", "set_col"]
# every other public operation, applied to the plainest lazy selections (is a pending view materialised before its geometry is used?)
PROBES_API = ["colint", "rowcolint", "maskidx", "colvals", "colsum", "colcounts", "padded", "padded_left", "unique", "cumsum", "concat", "where", "rslice", "any", "max", "nonzero", "iter", "tolist", "shape", "fcol", "ellipsis", "emptytuple", "nonzero_m", "rowlist", "size_rowsum", "size_colsum", "size_cumsum", "repr_rowsum"]
API_STEPS = ["rowslice_a", "rowrev", "rowstep2", "rowlist", "mask", "colslice_a", "colrev", "colstep2"]
VIEW_STEPS = ["rowslice_a", "rowrev", "rowstep2", "rowlist", "mask", "colslice_a", "colslice_b", "colrev", "colstep2", "colstepm2"]


def jobs(tier, seed):
    q = tier == "quick"
    out = []
    probes = PROBES_Q if q else PROBES_Q + ["shape", "iter", "tolist", "nonzero", "set_all"]
    for s in D1:
        for pk in probes:
            out.append(dict(R=(2 if q else 3), L=3, B=2, steps=[s], probe=pk))
    for s in API_STEPS:
        for pk in PROBES_API:
            if pk in probes:
                continue
            out.append(dict(R=2 if q else 3, L=2 if q else 3, B=2, steps=[s], probe=pk))
    # depth 2: views of views (these compound start/length/column-step triples) -- all pairs of view steps
    pairs = list(itertools.product(VIEW_STEPS, VIEW_STEPS))
    import random
    rnd = random.Random(seed)
    core = [("colstep2", "colstep2"), ("colrev", "colslice_a"), ("colslice_a", "colrev"), ("colstepm2", "colstep2"), ("rowrev", "colrev"),
            ("mask", "colslice_b"), ("colslice_b", "rowlist"), ("colstep2", "colstepm2"), ("colstepm2", "colstepm2"), ("rowstep2", "colstep2"),
            ("colslice_a", "colslice_a"), ("colrev", "colrev")]
    if q:
        rest = [pr for pr in pairs if pr not in core]
        rnd.shuffle(rest)
        chosen = core + rest[:8]
        pks = ["read", "rowint", "colslice", "set_col"]
    else:
        chosen = pairs
        pks = ["read", "rowint", "elem", "colslice", "colrev", "rowsum", "set_row", "set_col"]
    for pr in chosen:
        for pk in pks:
            out.append(dict(R=2, L=3, B=2, steps=list(pr), probe=pk))
    if not q:
        triples = list(itertools.product(["colstep2", "colrev", "colslice_a", "rowrev", "mask"], repeat=3))
        for tr in triples:
            for pk in ("read", "rowint", "colslice"):
                out.append(dict(R=2, L=3, B=1, steps=list(tr), probe=pk))
    return [dict(h="C06.derived", p=p) for p in out]


harness("C06.derived", jobs, sym, conc)
