"""C01 -- a RaggedArray holds exactly the rows it was built from.

Harnesses
  C01.build     from (flat buffer, lengths): len/size/shape/lengths/ravel/dtype, RaggedShape starts/ends/lengths/size,
                ravel_multi_index / unravel_multi_index / index_array  (row lengths and probes symbolic)
  C01.mismatch  buffer size != sum(lengths) must be refused, == must be accepted
  C01.lists     from nested python lists (+ dtype argument); tolist()/iteration against the canonical observation
  C01.astype    astype between integer widths / bool
  C01.numpy     from_numpy_array / to_numpy_array
  C01.saveload  save + load through np.savez/np.load (stubbed in the shim: in-memory dict), both from_dict branches
"""
import numpy as np
from . import common
from .common import harness, outcome, mk_ragged, cells, obs_array, obs_ragged, obs_scalar, obs_any

DTYPES = ["int64", "bool", "uint8", "int32", "float64"]


def gen_cells(E, n, dtype, tag="d"):
    if dtype == "bool":
        return [E.bool(f"{tag}{q}") for q in range(n)]
    if dtype == "int64":
        return [E.int(f"{tag}{q}", -(1 << 40), 1 << 40) for q in range(n)]
    bits = {"uint8": 8, "int8": 8, "int16": 16, "uint16": 16, "int32": 32, "uint32": 32, "uint64": 64, "float64": 64, "float32": 32, "float16": 16, "bv64": 64}[dtype]
    return [E.bv(f"{tag}{q}", bits) for q in range(n)]


def gen(E, p, dtype):
    import z3
    R = E.concretize(E.int("R", 0, p["R"]))
    lens = [E.int(f"l{r}", 0, p["L"]) for r in range(R)]
    S = E.concretize(z3.Sum(lens) if lens else z3.IntVal(0))
    return R, lens, S, gen_cells(E, S, dtype)


def conc_data(case):
    """concrete cell values of a case as python values of the right signedness"""
    dt = case["dtype"]
    out = []
    for v in case["data"]:
        if dt in ("int8", "int16", "int32") and isinstance(v, int):
            b = int(dt[3:])
            v = v - (1 << b) if v >= 1 << (b - 1) else v
        out.append(v)
    return out


# ------------------------------------------------------------------ C01.build
def observe_build(ra, probes):
    sh = ra._shape
    out = [len(ra), ra.size, ra.shape[0], ra.shape[1], ra.lengths, ra.ravel(), sh.starts, sh.ends, sh.lengths, sh.size, sh.n_rows,
           ra.dtype == np.dtype(probes["dtype"]), ra.ndim]
    if probes.get("rc") is not None:
        r, c = probes["rc"]
        out.append(sh.ravel_multi_index((common.pyint(r), common.pyint(c))))
    if probes.get("p") is not None:
        rr, cc = sh.unravel_multi_index(common.pyint(probes["p"]))
        out += [rr, cc]
    if probes.get("ia"):
        out.append(sh.index_array())
    return tuple(out)


def sym_build(E, p, kf):
    import z3
    from symx import specs
    from npstructures import RaggedArray
    dt = p["dtype"]
    R, lens, S, data = gen(E, p, dt)
    probes = {"dtype": dt}
    starts, tot = specs.prefix_starts(lens)
    if p.get("probe") == "rc" and R:
        r = E.int("pr", 0, R - 1)
        c = E.int("pc", 0, p["L"])
        E.assume(c < specs.select_chain(lens, r))
        probes["rc"] = (r, c)
    if p.get("probe") == "p" and S:
        probes["p"] = E.int("pp", 0, S - 1)
    if p.get("probe") == "ia":
        probes["ia"] = True
    ra = mk_ragged(RaggedArray, data, lens, dt)
    got = outcome(lambda: observe_build(ra, probes))
    case = dict(lens=lens, data=data, dtype=dt, probes=probes)
    if got["k"] != "tuple":
        return dict(goal=False, got=got, case=case)
    ends = [s + l for s, l in zip(starts, lens)]
    I64 = "int64"
    exp = [obs_scalar(R), obs_scalar(S), obs_scalar(R), dict(k="array", flat=lens, shape=[R], dtype=I64),
           dict(k="array", flat=lens, shape=[R], dtype=I64), dict(k="array", flat=data, shape=[S], dtype=dt),
           dict(k="array", flat=starts, shape=[R], dtype=I64), dict(k="array", flat=ends, shape=[R], dtype=I64),
           dict(k="array", flat=lens, shape=[R], dtype=I64), dict(k="scalar", val=S, dtype="*"), obs_scalar(R), obs_scalar(True), obs_scalar(2)]
    items = got["items"]
    conds = [specs.obs_goal(g, e) for g, e in zip(items[:13], exp)]
    k = 13
    if "rc" in probes:
        r, c = probes["rc"]
        conds.append(specs.eqv(items[k]["val"], specs.select_chain(starts, r) + c))
        k += 1
    if "p" in probes:
        pp = probes["p"]
        gr, gc = items[k]["val"], items[k + 1]["val"]
        gr = gr if z3.is_expr(gr) else z3.IntVal(gr)
        conds += [gr >= 0, gr < R, specs.select_chain(starts, gr) <= pp, pp < specs.select_chain(ends, gr),
                  specs.eqv(gc, pp - specs.select_chain(starts, gr))]
        k += 2
    if probes.get("ia"):
        ia = items[k]
        if ia["k"] != "array" or ia["shape"] != [S]:
            conds.append(False)
        else:
            for q, g in enumerate(ia["flat"]):
                g = g if z3.is_expr(g) else z3.IntVal(g)
                conds += [g >= 0, g < R, specs.select_chain(starts, g) <= q, q < specs.select_chain(ends, g)] if R else [False]
    return dict(goal=specs.conj(conds), got=got, case=case)


def conc_build(case):
    from npstructures import RaggedArray
    dt, lens, data = case["dtype"], case["lens"], conc_data(case)
    probes = case["probes"]
    ra = mk_ragged(RaggedArray, data, lens, dt)
    got = outcome(lambda: observe_build(ra, probes))
    R, S = len(lens), sum(lens)
    starts = [sum(lens[:i]) for i in range(R)]
    ends = [s + l for s, l in zip(starts, lens)]
    A = common.ref_array
    exp = [obs_scalar(R), obs_scalar(S), obs_scalar(R), A(lens, [R], "int64"), A(lens, [R], "int64"), A(data, [S], dt), A(starts, [R], "int64"),
           A(ends, [R], "int64"), A(lens, [R], "int64"), dict(k="scalar", val=S, dtype="*"), obs_scalar(R), obs_scalar(True), obs_scalar(2)]
    if probes.get("rc") is not None:
        r, c = probes["rc"]
        exp.append(dict(k="scalar", val=starts[r] + c, dtype="*"))
    if probes.get("p") is not None:
        pp = probes["p"]
        r = [i for i in range(R) if starts[i] <= pp < ends[i]][0]
        exp += [dict(k="scalar", val=r, dtype="*"), dict(k="scalar", val=pp - starts[r], dtype="*")]
    if probes.get("ia"):
        exp.append(A([r for r in range(R) for _ in range(lens[r])], [S], "int64"))
    return got, dict(k="tuple", items=exp)


# ------------------------------------------------------------------ C01.mismatch
def sym_mismatch(E, p, kf):
    import z3
    from symx import specs
    from npstructures import RaggedArray
    R = E.concretize(E.int("R", 0, p["R"]))
    lens = [E.int(f"l{r}", 0, p["L"]) for r in range(R)]
    n = E.concretize(E.int("n", 0, p["R"] * p["L"] + 1))
    data = [E.int(f"d{q}", -9, 9) for q in range(n)]
    how = p["how"]
    tot = z3.Sum(lens) if lens else z3.IntVal(0)
    if "KF-C01-1" in kf and how == "shape":
        E.assume(tot == n)       # open known finding: a RaggedShape *object* is not size-checked
    got = outcome(lambda: _build_how(RaggedArray, data, lens, how))
    case = dict(lens=lens, data=data, how=how)
    if got["k"] == "raise":
        goal = tot != n
    else:
        goal = specs.conj([tot == n] + specs.ragged_matches(got["flat"], got["lens"], lens,
                                                             lambda k, c: z3.Select(specs.store_of(data), specs.prefix_starts(lens)[0][k] + c)))
    return dict(goal=goal, got=got, case=case)


def _build_how(RaggedArray, data, lens, how):
    from npstructures import RaggedShape
    d = common.arr(data, "int64")
    if how == "list":
        return RaggedArray(d, [common.pyint(l) for l in lens])
    if how == "array":
        return RaggedArray(d, common.arr(lens, "int64"))
    if how == "shape":
        return RaggedArray(d, RaggedShape(common.arr(lens, "int64")))
    if how == "tuple":
        return RaggedArray(d, (len(lens), common.arr(lens, "int64")))
    raise ValueError(how)


def conc_mismatch(case):
    from npstructures import RaggedArray
    got = outcome(lambda: _build_how(RaggedArray, case["data"], case["lens"], case["how"]))
    if sum(case["lens"]) != len(case["data"]):
        return got, common.refused()
    return got, common.ref_ragged(common.rows_of(case["data"], case["lens"]), "int64")


# ------------------------------------------------------------------ C01.narrow: row lengths given in a narrow integer dtype
def _narrow_obs(RaggedArray, lens, ldt, S):
    from npstructures import RaggedShape
    data = np.arange(S, dtype="int64") if not common.SYMBOLIC else common.arr(list(range(S)), "int64")
    l = common.arr(lens, ldt)
    ra = RaggedArray(data, l)
    sh = RaggedShape(l)
    return (ra, ra._shape.starts, ra._shape.ends, ra.size, sh.starts, sh.size)


def sym_narrow(E, p, kf):
    from symx import specs
    from npstructures import RaggedArray
    R = E.concretize(E.int("R", 1, p["R"]))
    lens = [E.choose(f"l{r}", p["choices"]) for r in range(R)]      # large lengths: their prefix sums exceed the narrow dtype's range
    S = sum(lens)
    got = outcome(lambda: _narrow_obs(RaggedArray, lens, p["ldt"], S))
    starts = [sum(lens[:i]) for i in range(R)]
    ends = [a + b for a, b in zip(starts, lens)]
    A = lambda v: dict(k="array", flat=v, shape=[len(v)], dtype="*")
    exp = dict(k="tuple", items=[dict(k="ragged", flat=list(range(S)), lens=lens, dtype="int64"), A(starts), A(ends), dict(k="scalar", val=S, dtype="*"), A(starts), dict(k="scalar", val=S, dtype="*")])
    return dict(goal=specs.obs_goal(got, exp), got=got, case=dict(lens=lens, ldt=p["ldt"]))


def conc_narrow(case):
    from npstructures import RaggedArray
    lens = case["lens"]
    S, R = sum(lens), len(lens)
    got = outcome(lambda: _narrow_obs(RaggedArray, lens, case["ldt"], S))
    starts = [sum(lens[:i]) for i in range(R)]
    ends = [a + b for a, b in zip(starts, lens)]
    A = lambda v: common.ref_array(v, [len(v)], "*")
    return got, dict(k="tuple", items=[common.ref_ragged(common.rows_of(list(range(S)), lens), "int64"), A(starts), A(ends), dict(k="scalar", val=S, dtype="*"), A(starts), dict(k="scalar", val=S, dtype="*")])


def jobs_narrow(tier, seed):
    return [dict(h="C01.narrow", p=dict(R=3, ldt=ldt, choices=ch)) for ldt, ch in (("int8", [0, 50, 100]), ("uint8", [0, 100, 200]), ("int16", [0, 50]))]


# ------------------------------------------------------------------ C01.lists (+ tolist / iteration)
def observe_lists(RaggedArray, rows, dtype, via):
    if via == "lists":
        ra = RaggedArray([[common.pyval(c) for c in r] for r in rows], dtype=dtype)
    elif via == "arrays":
        ra = RaggedArray([common.arr(r, dtype or "int64") for r in rows], dtype=dtype)
    else:
        raise ValueError(via)
    return ra


def sym_lists(E, p, kf):
    import z3
    from symx import specs
    from npstructures import RaggedArray
    R = E.concretize(E.int("R", 0, p["R"]))
    lens = [E.concretize(E.int(f"l{r}", 0, p["L"])) for r in range(R)]
    S = sum(lens)
    src = p.get("src", "int64")
    data = gen_cells(E, S, src)
    rows = common.rows_of(data, lens)
    dtype = p.get("dtype")
    via = p["via"]
    what = p["what"]

    def run():
        ra = observe_lists(RaggedArray, rows, dtype, via)
        if what == "canon":
            return ra
        if what == "tolist":
            return tuple(tuple(common.pyval(c) for c in r) for r in ra.tolist())
        if what == "iter":
            return tuple(obs_array(r) for r in ra)
    got = outcome(run)
    case = dict(lens=lens, data=data, dtype=dtype, via=via, what=what, src=src)
    rdt = dtype or src
    if rdt != src:
        return dict(goal=True, got=got, case=case)     # conversion at construction: judged by replay only (values are cargo)
    if S == 0 and dtype is None:
        rdt = "*"                                      # numpy's default element type for an empty list; not part of the claim
    if what == "canon":
        exp = dict(k="ragged", flat=data, lens=lens, dtype=rdt)
    elif what == "tolist":
        exp = obs_any(tuple(tuple(r) for r in rows))
        exp = _py_dtype(exp)
    else:
        exp = dict(k="tuple", items=[dict(k="array", flat=r, shape=[len(r)], dtype=rdt) for r in rows])
    return dict(goal=specs.obs_goal(_py_dtype(got) if what == "tolist" else got, exp), got=got, case=case)


def _py_dtype(o):
    if o.get("k") == "tuple":
        return dict(k="tuple", items=[_py_dtype(i) for i in o["items"]])
    if o.get("k") == "scalar":
        return dict(o, dtype="*")
    return o


def conc_lists(case):
    from npstructures import RaggedArray
    rows = common.rows_of(case["data"], case["lens"])
    dtype, via, what = case["dtype"], case["via"], case["what"]
    rdt = dtype or case["src"]

    def run():
        ra = observe_lists(RaggedArray, rows, dtype, via)
        if what == "canon":
            return ra
        if what == "tolist":
            return tuple(tuple(r) for r in ra.tolist())
        return tuple(obs_array(r) for r in ra)
    got = outcome(run)
    conv = np.array(case["data"], dtype=case["src"]).astype(rdt).tolist() if case["data"] else []
    if rdt.startswith("float"):
        conv = cells(np.array(conv, dtype=rdt))
    crow = common.rows_of(conv, case["lens"])
    if len(case["data"]) == 0 and dtype is None:
        rdt = "*"                # numpy's default element type for an empty list; not part of the claim
    if what == "canon":
        return got, common.ref_ragged(crow, rdt)
    if what == "tolist":
        if rdt.startswith("float"):
            crow = common.rows_of(np.array(case["data"], dtype=case["src"]).astype(rdt).tolist() if case["data"] else [], case["lens"])
        return _py_dtype(got), _py_dtype(obs_any(tuple(tuple(r) for r in crow)))
    return got, dict(k="tuple", items=[common.ref_array(r, [len(r)], rdt) for r in crow])


# ------------------------------------------------------------------ C01.astype
def sym_astype(E, p, kf):
    import z3
    from symx import specs
    from npstructures import RaggedArray
    src, dst = p["src"], p["dst"]
    R, lens, S, data = gen(E, p, "bv64" if src == "int64" else src)
    ra = mk_ragged(RaggedArray, data, lens, src)
    got = outcome(lambda: _astype_run(ra, dst, p.get("write")))
    case = dict(lens=lens, data=data, dtype=src, dst=dst, write=p.get("write"))
    if got["k"] != "tuple":
        return dict(goal=False, got=got, case=case)
    sb, db = _bits(src), _bits(dst)
    conv = []
    for d in data:
        if dst == "bool":
            conv.append(d != 0 if not z3.is_bool(d) else d)
        elif src == "bool":
            conv.append(z3.If(d, z3.BitVecVal(1, db), z3.BitVecVal(0, db)))
        elif db <= sb:
            conv.append(z3.Extract(db - 1, 0, d) if db < sb else d)
        else:
            conv.append(z3.SignExt(db - sb, d) if src.startswith("int") else z3.ZeroExt(db - sb, d))
    if p.get("write"):
        conv = [(z3.BoolVal(True) if dst == "bool" else z3.BitVecVal(1, db)) for _ in data]       # the converted array was overwritten; the source still holds its rows
    exp = dict(k="tuple", items=[dict(k="ragged", flat=conv, lens=lens, dtype=dst), dict(k="ragged", flat=data, lens=lens, dtype=src)])
    return dict(goal=specs.obs_goal(got, exp), got=got, case=case)


def _astype_run(ra, dst, write):
    b = ra.astype(dst)
    if write:
        b[...] = 1          # the converted array is an array of its own (also when the element type did not change)
    return b, ra


def _bits(dt):
    return {"bool": 1, "int8": 8, "uint8": 8, "int16": 16, "uint16": 16, "int32": 32, "uint32": 32, "int64": 64, "uint64": 64}[dt]


def conc_astype(case):
    from npstructures import RaggedArray
    src, dst = case["dtype"], case["dst"]
    data = conc_data(case)
    if src in ("int64",):
        data = [d - (1 << 64) if d >= 1 << 63 else d for d in data]
    ra = mk_ragged(RaggedArray, np.array(data, dtype=src) if data else [], case["lens"], src)
    got = outcome(lambda: _astype_run(ra, dst, case.get("write")))
    conv = np.array(data, dtype=src).astype(dst).tolist() if data else []
    if case.get("write"):
        conv = [True if dst == "bool" else 1 for _ in conv]
    return got, dict(k="tuple", items=[common.ref_ragged(common.rows_of(conv, case["lens"]), dst),
                                       common.ref_ragged(common.rows_of(data, case["lens"]), src)])


# ------------------------------------------------------------------ C01.numpy
def _matrix(data, r, c, layout):
    """the r x c matrix whose row-major reading is `data`, stored row-major ("C") or as the transposed view of a (c, r) block ("T")"""
    if layout == "C" or r == 0 or c == 0:
        return common.arr(data, "int64").reshape(r, c)
    base = [data[i * c + j] for j in range(c) for i in range(r)]
    return common.arr(base, "int64").reshape(c, r).T


def sym_numpy(E, p, kf):
    import z3
    from symx import specs
    from npstructures import RaggedArray
    what = p["what"]
    if what == "from":
        r = E.concretize(E.int("r", 0, p["R"]))
        c = E.concretize(E.int("c", 0, p["L"]))
        data = gen_cells(E, r * c, "int64")
        layout = E.choose("layout", ["C", "T"])      # row-major block, or the transposed view of a (c, r) block (column-major memory)
        m = _matrix(data, r, c, layout)
        got = outcome(lambda: (RaggedArray.from_numpy_array(m), RaggedArray.from_numpy_array(m).to_numpy_array(), RaggedArray.from_numpy_array(m)[::-1]))
        case = dict(what=what, r=r, c=c, data=data, layout=layout)
        rev = [x for i in range(r - 1, -1, -1) for x in data[i * c:(i + 1) * c]]
        exp = dict(k="tuple", items=[dict(k="ragged", flat=data, lens=[c] * r, dtype="int64"),
                                     dict(k="array", flat=data, shape=[r, c] if r else [0, 0], dtype="int64" if r else "*"),
                                     dict(k="ragged", flat=rev, lens=[c] * r, dtype="int64")])
        return dict(goal=specs.obs_goal(got, exp), got=got, case=case)
    # to_numpy_array of a ragged array: accepted iff all rows equally long
    R, lens, S, data = gen(E, p, "int64")
    ra = mk_ragged(RaggedArray, data, lens, "int64")
    got = outcome(lambda: ra.to_numpy_array())
    case = dict(what=what, lens=lens, data=data)
    alleq = specs.conj([lens[i] == lens[0] for i in range(1, R)])
    if got["k"] == "raise":
        return dict(goal=z3.Not(alleq) if alleq is not True else False, got=got, case=case)
    if R == 0:
        return dict(goal=got["shape"] == [0, 0], got=got, case=case)
    conds = [alleq, len(got["shape"]) == 2 and got["shape"][0] == R, specs.eqv(lens[0], got["shape"][1])]
    conds += [specs.eqv(a, b) for a, b in zip(got["flat"], data)]
    conds.append(len(got["flat"]) == S)
    return dict(goal=specs.conj(conds), got=got, case=case)


def conc_numpy(case):
    from npstructures import RaggedArray
    if case["what"] == "from":
        r, c, data = case["r"], case["c"], case["data"]
        m = _matrix(data, r, c, case.get("layout", "C"))
        got = outcome(lambda: (RaggedArray.from_numpy_array(m), RaggedArray.from_numpy_array(m).to_numpy_array(), RaggedArray.from_numpy_array(m)[::-1]))
        exp = dict(k="tuple", items=[common.ref_ragged([data[i * c:(i + 1) * c] for i in range(r)], "int64"),
                                     common.ref_array(data, [r, c] if r else [0, 0], "int64" if r else "*"),
                                     common.ref_ragged([data[i * c:(i + 1) * c] for i in range(r - 1, -1, -1)], "int64")])
        return got, exp
    lens, data = case["lens"], case["data"]
    ra = mk_ragged(RaggedArray, data, lens, "int64")
    got = outcome(lambda: ra.to_numpy_array())
    if len(set(lens)) > 1:
        return got, common.refused()
    if not lens:
        return got, common.ref_array([], [0, 0], "*")
    return got, common.ref_array(data, [len(lens), lens[0]], "int64")


# ------------------------------------------------------------------ C01.saveload
def _saveload(RaggedArray, ra, legacy):
    import os
    import tempfile
    d = tempfile.mkdtemp(prefix="verif_c01_")
    fn = os.path.join(d, "ra.npz")
    try:
        if legacy:
            offsets = np.insert(np.cumsum(ra.lengths), 0, 0)
            np.savez(fn, data=ra.ravel(), offsets=offsets)
        else:
            ra.save(fn)
        return RaggedArray.load(fn)
    finally:
        if os.path.exists(fn):
            os.unlink(fn)
        os.rmdir(d)


def sym_saveload(E, p, kf):
    from symx import specs
    from npstructures import RaggedArray
    dt = p["dtype"]
    R, lens, S, data = gen(E, p, dt)
    ra = mk_ragged(RaggedArray, data, lens, dt)
    got = outcome(lambda: (_saveload(RaggedArray, ra, p["legacy"]), ra))
    case = dict(lens=lens, data=data, dtype=dt, legacy=p["legacy"])
    one = dict(k="ragged", flat=data, lens=lens, dtype=dt)
    return dict(goal=specs.obs_goal(got, dict(k="tuple", items=[one, one])), got=got, case=case)


def conc_saveload(case):
    from npstructures import RaggedArray
    data = conc_data(case)
    ra = mk_ragged(RaggedArray, data, case["lens"], case["dtype"])
    got = outcome(lambda: (_saveload(RaggedArray, ra, case["legacy"]), ra))
    one = common.ref_ragged(common.rows_of(data, case["lens"]), case["dtype"])
    return got, dict(k="tuple", items=[one, one])


# ------------------------------------------------------------------ jobs
def jobs_build(tier, seed):
    q = tier == "quick"
    base = dict(R=4 if q else 5, L=3 if q else 4)
    out = [dict(base, dtype=dt, probe=None) for dt in DTYPES]
    out += [dict(base, dtype="int64", probe=pr) for pr in ("rc", "p", "ia")]
    return [dict(h="C01.build", p=p) for p in out]


def jobs_mismatch(tier, seed):
    q = tier == "quick"
    return [dict(h="C01.mismatch", p=dict(R=3 if q else 4, L=2 if q else 3, how=how)) for how in ("list", "array", "shape", "tuple")]


def jobs_lists(tier, seed):
    q = tier == "quick"
    base = dict(R=3, L=2 if q else 3)
    out = []
    for what in ("canon", "tolist", "iter"):
        out.append(dict(base, via="lists", what=what, dtype=None))
        out.append(dict(base, via="arrays", what=what, dtype=None))
    out.append(dict(base, via="lists", what="canon", dtype="int32"))
    out.append(dict(base, via="lists", what="canon", dtype="float64"))
    out.append(dict(base, via="lists", what="tolist", dtype=None, src="bool"))
    out.append(dict(base, via="lists", what="canon", dtype=None, src="bool"))
    return [dict(h="C01.lists", p=p) for p in out]


def jobs_astype(tier, seed):
    q = tier == "quick"
    base = dict(R=3 if q else 4, L=3)
    pairs = [("int64", "int32"), ("int64", "uint8"), ("int32", "int64"), ("uint8", "int64"), ("int8", "int16"), ("int64", "bool"), ("uint8", "bool")]
    out = [dict(h="C01.astype", p=dict(base, src=s, dst=d)) for s, d in pairs]
    out += [dict(h="C01.astype", p=dict(base, src=s, dst=d, write=True)) for s, d in (("int64", "int64"), ("uint8", "uint8"), ("uint8", "int64"))]
    return out


def jobs_numpy(tier, seed):
    q = tier == "quick"
    return [dict(h="C01.numpy", p=dict(R=3 if q else 4, L=3, what="from")), dict(h="C01.numpy", p=dict(R=3 if q else 4, L=3, what="to"))]


def jobs_saveload(tier, seed):
    q = tier == "quick"
    base = dict(R=3 if q else 4, L=3)
    return [dict(h="C01.saveload", p=dict(base, dtype=dt, legacy=leg)) for dt in ("int64", "bool", "uint8") for leg in (False, True)]


def kf_match(case):
    if case.get("how") == "shape" and "lens" in case and "data" in case and sum(case["lens"]) != len(case["data"]):
        return ["KF-C01-1"]
    return []


harness("C01.build", jobs_build, sym_build, conc_build)
harness("C01.mismatch", jobs_mismatch, sym_mismatch, conc_mismatch)
harness("C01.narrow", jobs_narrow, sym_narrow, conc_narrow)
harness("C01.lists", jobs_lists, sym_lists, conc_lists)
harness("C01.astype", jobs_astype, sym_astype, conc_astype)
harness("C01.numpy", jobs_numpy, sym_numpy, conc_numpy)
harness("C01.saveload", jobs_saveload, sym_saveload, conc_saveload)


# ------------------------------------------------------------------ C01.mixed: rows given as arrays of different element types
_PROMOTE = {("uint8", "int16"): "int16", ("bool", "int64"): "int64", ("int8", "uint8"): "int16", ("int16", "uint8"): "int16"}


def _mixed_rows(RaggedArray, rows, dts):
    return RaggedArray([common.arr(r, dts[i % 2]) for i, r in enumerate(rows)])


def _mixed_dtype(lens, dts):
    present = []
    for i, n in enumerate(lens):
        if n and dts[i % 2] not in present:
            present.append(dts[i % 2])
    if not present:
        return "*"
    if len(present) == 1:
        return present[0]
    return _PROMOTE[tuple(dts)]


def sym_mixed(E, p, kf):
    import z3
    from symx import specs
    from npstructures import RaggedArray
    dts = p["dts"]
    R = E.concretize(E.int("R", 0, p["R"]))
    lens = [E.concretize(E.int(f"l{r}", 0, p["L"])) for r in range(R)]
    rows = [gen_cells(E, n, dts[i % 2], tag=f"r{i}_") if n else [] for i, n in enumerate(lens)]
    got = outcome(lambda: _mixed_rows(RaggedArray, rows, dts))
    case = dict(lens=lens, rows=rows, dts=dts)
    rdt = _mixed_dtype(lens, dts)
    flat = []
    for i, r in enumerate(rows):
        for cell in r:
            src = dts[i % 2]
            if rdt in ("*", src):
                flat.append(cell)
            elif src == "bool":
                flat.append(z3.If(cell, z3.BitVecVal(1, _bits(rdt)), z3.BitVecVal(0, _bits(rdt))))
            else:
                ext = z3.SignExt if src.startswith("int") else z3.ZeroExt
                flat.append(ext(_bits(rdt) - _bits(src), cell))
    return dict(goal=specs.obs_goal(got, dict(k="ragged", flat=flat, lens=lens, dtype=rdt)), got=got, case=case)


def conc_mixed(case):
    from npstructures import RaggedArray
    dts, lens = case["dts"], case["lens"]
    rows = []
    for i, r in enumerate(case["rows"]):
        dt = dts[i % 2]
        b = _bits(dt)
        rows.append([(bool(v) if dt == "bool" else (v - (1 << b) if dt.startswith("int") and v >= 1 << (b - 1) else v)) for v in r])
    got = outcome(lambda: _mixed_rows(RaggedArray, rows, dts))
    rdt = _mixed_dtype(lens, dts)
    return got, common.ref_ragged([[int(v) for v in r] for r in rows] if rdt != "bool" else rows, rdt)


def jobs_mixed(tier, seed):
    q = tier == "quick"
    return [dict(h="C01.mixed", p=dict(R=3, L=2 if q else 3, dts=list(d))) for d in _PROMOTE]


harness("C01.mixed", jobs_mixed, sym_mixed, conc_mixed)
