"""C04 -- element-wise ufuncs act row by row, with column broadcasting.

kinds:  unary g(ra) | rr f(ra, rb) same lengths | rr_bad different lengths (must refuse) | rs f(ra, scalar) | sr f(scalar, ra)
        | rc f(ra, column) | cr f(column, ra)      scalar in {python int, python bool, numpy scalar of dt2}
Cells are bit-vectors of the dtype's true width (wrap-around exact) or Bools; the column path goes through the
XOR-scatter / prefix-XOR broadcast on the reinterpreted bits.
Oracle 1: "numpy applied to the rows": the same ufunc applied (on the symbolic numpy) to the flat buffer and the operand
expanded per row-of-position; same lengths; same dtype; operands unchanged.
Oracle 2 (replay): real numpy applied to each row separately.
"""
import numpy as np
from . import common, c01
from .common import harness, outcome, mk_ragged, arr, typed, pyint, cells

UNARY = {"negative": "arith", "invert": "bit", "logical_not": "logic", "absolute": "arith"}
BINARY = {"add": "arith", "subtract": "arith", "multiply": "arith", "less": "cmp", "greater_equal": "cmp", "equal": "cmp",
          "bitwise_and": "bit", "bitwise_xor": "bit", "logical_or": "logic", "logical_and": "logic", "maximum": "arith", "minimum": "arith",
          "floor_divide": "arith", "left_shift": "bit"}


def _scalar(sk, v, dt2):
    if sk == "pyint":
        return pyint(v) if not isinstance(v, int) else int(v)
    if sk == "pybool":
        return common.pyval(v) if not isinstance(v, bool) else bool(v)
    return typed([v], dt2)[0]      # numpy scalar of dtype dt2


def _ufunc(name):
    if name == "uf_f":          # an uninterpreted binary ufunc on the symbolic side; np.add stands in for it at replay
        return np.uf_f if common.SYMBOLIC else np.add
    return getattr(np, name)


def apply(RaggedArray, p, lens, d1, d2, sc, lens2=None, P=None):
    uf = _ufunc(p["op"])
    kind = p["kind"]
    ra = mk_ragged(RaggedArray, d1, lens, p["dt1"])
    if p.get("pre"):
        from . import programs
        ra = programs.view_step(ra, p["pre"], P, "s0")          # the ragged operand is a lazy selection
    if kind == "unary":
        return uf(ra), ra, None
    if kind in ("rr", "rr_bad"):
        rb = mk_ragged(RaggedArray, d2, lens if lens2 is None else lens2, p["dt2"])
        if p.get("via_astype"):
            ra, rb = ra.astype(p["dt1"]), rb.astype(p["dt2"])          # operands that are results of a type conversion are checked like any other
        return uf(ra, rb), ra, rb
    if kind in ("rs", "sr"):
        s = _scalar(p["sk"], sc, p["dt2"])
        return (uf(ra, s) if kind == "rs" else uf(s, ra)), ra, None
    col = typed(d2, p["dt2"]).reshape(-1, 1)
    return (uf(ra, col) if kind == "rc" else uf(col, ra)), ra, col


def gen_cells(E, n, dt, tag):
    return c01.gen_cells(E, n, "bv64" if dt == "int64" else dt, tag)


def sym(E, p, kf):
    import z3
    from symx import specs
    from npstructures import RaggedArray
    kind = p["kind"]
    R = E.concretize(E.int("R", 0 if kind not in ("rc", "cr") else 1, p["R"]))
    lens = [E.int(f"l{r}", 0, p["L"]) for r in range(R)]
    S = E.concretize(z3.Sum(lens) if lens else z3.IntVal(0))
    d1 = gen_cells(E, S, p["dt1"], "a")
    d2, sc, lens2 = None, None, None
    if kind == "rr":
        d2 = gen_cells(E, S, p["dt2"], "b")
    elif kind == "rr_bad":
        lens2 = [E.int(f"m{r}", 0, p["L"]) for r in range(R)]
        E.assume(z3.Or(*[a != b for a, b in zip(lens, lens2)]) if R else False)
        S2 = E.concretize(z3.Sum(lens2))
        d2 = gen_cells(E, S2, p["dt2"], "b")
    elif kind in ("rs", "sr"):
        sk = p["sk"]
        if sk == "pyint":
            sc = E.int("s", 0, 100) if not p.get("big") else E.int("s", -400, 400)
        elif sk == "pybool":
            sc = E.bool("s")
        else:
            sc = gen_cells(E, 1, p["dt2"], "s")[0]
    elif kind in ("rc", "cr") and not p.get("pre"):
        d2 = gen_cells(E, R, p["dt2"], "c")
        if p.get("nonzero2"):
            pass
    if p["op"] == "floor_divide":
        # division by zero is numpy's business (warning + 0); keep divisors non-zero
        for d in (d2 if d2 is not None else [sc]) if kind not in ("sr", "cr", "unary") else d1:
            if z3.is_bv(d):
                E.assume(d != 0)
            elif z3.is_int(d):
                E.assume(d != 0)
    P = None
    if p.get("pre"):
        from . import programs
        P = programs.ParamStore(E, B=2)
        # the rows the selection holds, computed on plain lists (shapes and selection parameters forked)
        lens = [E.concretize(l) if z3.is_expr(l) else l for l in lens]
        conc_ = lambda t: (E.branch(t) if z3.is_bool(t) else E.concretize(t)) if z3.is_expr(t) else t
        srows = programs.ref_view_rows(common.rows_of(list(d1), lens), p["pre"], P, "s0", conc=conc_)
        sel_d1, sel_lens = [c for r in srows for c in r], [len(r) for r in srows]
        K = len(sel_lens)
        d2 = gen_cells(E, K, p["dt2"], "c")
        got = outcome(lambda: apply(RaggedArray, p, lens, d1, d2, sc, lens2, P))
        case = dict(p=p, lens=lens, d1=d1, d2=d2, sc=sc, lens2=lens2, params=P.values)
        if got["k"] != "tuple":
            return dict(goal=False, got=got, case=case)
        res = got["items"][0]
        uf = _ufunc(p["op"])
        expanded = [d2[r] for r in range(K) for _ in range(sel_lens[r])]
        a = typed(sel_d1, p["dt1"])
        b = typed(expanded, p["dt2"])
        exp = uf(a, b) if kind == "rc" else uf(b, a)
        return dict(goal=specs.obs_goal(res, dict(k="ragged", flat=cells(exp), lens=sel_lens, dtype=common.dtname(exp))), got=res, case=case)
    got = outcome(lambda: apply(RaggedArray, p, lens, d1, d2, sc, lens2))
    case = dict(p=p, lens=lens, d1=d1, d2=d2, sc=sc, lens2=lens2)
    if kind == "rr_bad":
        return dict(goal=got["k"] == "raise", got=got, case=case)
    if got["k"] != "tuple":
        return dict(goal=False, got=got, case=case)
    res, ra_after, other_after = got["items"]
    # oracle: the ufunc on plain arrays, operand expanded per position
    uf = getattr(np, p["op"])
    a = typed(d1, p["dt1"])
    starts, _ = specs.prefix_starts(lens)
    if kind == "unary":
        exp = uf(a)
    elif kind == "rr":
        exp = uf(a, typed(d2, p["dt2"]))
    elif kind in ("rs", "sr"):
        s = _scalar(p["sk"], sc, p["dt2"])
        exp = uf(a, s) if kind == "rs" else uf(s, a)
    else:
        expanded = []
        for q in range(S):
            cur = d2[-1]
            for r in range(R - 2, -1, -1):
                cur = z3.If(q < starts[r] + lens[r], d2[r], cur)
            expanded.append(cur)
        b = typed(expanded, p["dt2"])
        exp = uf(a, b) if kind == "rc" else uf(b, a)
    expo = dict(k="ragged", flat=cells(exp), lens=lens, dtype=common.dtname(exp))
    conds = [specs.obs_goal(res, expo),
             specs.obs_goal(ra_after, dict(k="ragged", flat=d1, lens=lens, dtype=p["dt1"]))]
    if kind == "rr":
        conds.append(specs.obs_goal(other_after, dict(k="ragged", flat=d2, lens=lens, dtype=p["dt2"])))
    if kind in ("rc", "cr"):
        conds.append(specs.obs_goal(other_after, dict(k="array", flat=d2, shape=[R, 1], dtype=p["dt2"])))
    return dict(goal=specs.conj(conds), got=got, case=case)


def _signed(vals, dt):
    if vals is None:
        return None
    out = []
    for v in vals:
        if isinstance(v, bool) or not isinstance(v, int):
            out.append(v)
            continue
        if dt.startswith("int"):
            b = int(dt[3:])
            v = v - (1 << b) if v >= 1 << (b - 1) else v
        out.append(v)
    return out


def conc(case):
    from npstructures import RaggedArray
    p, lens, lens2 = case["p"], case["lens"], case["lens2"]
    d1, d2, sc = _signed(case["d1"], p["dt1"]), _signed(case["d2"], p["dt2"]), case["sc"]
    if sc is not None and p.get("sk") == "np":
        sc = _signed([sc], p["dt2"])[0]
    import warnings
    if p.get("pre"):
        from . import programs
        P = programs.ParamStore(None, dict(case["params"]), B=2)
        got = outcome(lambda: apply(RaggedArray, p, lens, d1, d2, sc, lens2, P))
        rows = [typed(r, p["dt1"]) for r in programs.ref_view_rows(common.rows_of(list(d1), lens), p["pre"], P, "s0")]
        uf = _ufunc(p["op"])
        outs = []
        for r, row in enumerate(rows):
            c = typed([d2[r]], p["dt2"])[0]
            outs.append(uf(row, c) if p["kind"] == "rc" else uf(c, row))
        odt = str(outs[0].dtype) if outs else "*"
        exp = common.ref_ragged([cells(o) for o in outs], odt)
        g = got["items"][0] if got["k"] == "tuple" else got
        return g, exp, {"float_eq": True}
    got = outcome(lambda: apply(RaggedArray, p, lens, d1, d2, sc, lens2))
    if p["kind"] == "rr_bad":
        return got, common.refused()
    uf = _ufunc(p["op"])
    kind = p["kind"]
    rows1 = common.rows_of(d1, lens)
    out_rows, odt = [], None
    empty = typed([], p["dt1"])
    for r, row in enumerate(rows1):
        a = typed(row, p["dt1"])
        if kind == "unary":
            o = uf(a)
        elif kind == "rr":
            o = uf(a, typed(common.rows_of(d2, lens)[r], p["dt2"]))
        elif kind in ("rs", "sr"):
            s = _scalar(p["sk"], sc, p["dt2"])
            o = uf(a, s) if kind == "rs" else uf(s, a)
        else:
            c = typed([d2[r]], p["dt2"])[0]
            o = uf(a, c) if kind == "rc" else uf(c, a)
        out_rows.append(cells(o))
        odt = str(o.dtype)
    if odt is None:
        a = typed([], p["dt1"])
        if kind == "unary":
            o = uf(a)
        elif kind == "rr":
            o = uf(a, typed([], p["dt2"]))
        elif kind in ("rs", "sr"):
            s = _scalar(p["sk"], sc, p["dt2"])
            o = uf(a, s) if kind == "rs" else uf(s, a)
        else:
            o = uf(a, typed([], p["dt2"]))
        odt = str(o.dtype)
    exp = [common.ref_ragged(out_rows, odt), common.ref_ragged(rows1, p["dt1"])]
    if kind == "rr":
        exp.append(common.ref_ragged(common.rows_of(d2, lens), p["dt2"]))
    elif kind in ("rc", "cr"):
        exp.append(common.ref_array(d2, [len(lens), 1], p["dt2"]))
    else:
        exp.append({"k": "none"})
    return got, dict(k="tuple", items=exp)


def jobs(tier, seed):
    q = tier == "quick"
    base = dict(R=3 if q else 4, L=2 if q else 3)
    out = []
    # routing, int64 (64-bit column broadcast), every kind
    for op in ("subtract", "less", "bitwise_and", "maximum") if q else ("subtract", "less", "bitwise_and", "maximum", "add", "equal", "bitwise_xor", "minimum", "floor_divide"):
        for kind in ("rr", "rs", "sr", "rc", "cr"):
            if op == "floor_divide" and kind != "rs":
                continue          # a symbolic divisor (symbolic / symbolic) is outside reach; array // python scalar (0..100, enumerated by forking) stays
            out.append(dict(base, op=op, kind=kind, dt1="int64", dt2="int64", sk="pyint" if kind in ("rs", "sr") else None))
    out.append(dict(base, op="subtract", kind="rr_bad", dt1="int64", dt2="int64"))
    out.append(dict(base, op="subtract", kind="rr_bad", dt1="int64", dt2="int64", via_astype=True))
    out.append(dict(base, op="add", kind="rr", dt1="int64", dt2="int64", via_astype=True))
    for op in UNARY:
        out.append(dict(base, op=op, kind="unary", dt1="bool" if op == "logical_not" else "int64", dt2=None))
    out.append(dict(base, op="invert", kind="unary", dt1="bool", dt2=None))
    # every itemsize of the XOR broadcast table, mixed dtypes (result dtype = numpy's)
    pairs = [("uint8", "uint8"), ("int8", "int16"), ("int32", "int32"), ("uint8", "int8"), ("bool", "bool"), ("bool", "uint8"), ("int16", "bool"),
             ("uint16", "int64"), ("int64", "int32")]
    if not q:
        pairs += [("uint32", "int8"), ("uint8", "uint16"), ("int8", "int8"), ("uint16", "uint16"), ("uint32", "uint32"), ("int64", "uint8"), ("bool", "int64")]
    for dt1, dt2 in pairs:
        for op in ("subtract", "less", "bitwise_xor", "logical_or", "add") if not q else ("add", "less", "bitwise_xor"):
            if op == "subtract" and dt1 == "bool" and dt2 == "bool":
                continue      # numpy refuses boolean subtract
            for kind in ("rr", "rc", "cr", "rs"):
                if q and kind == "rr" and op != "add":
                    continue
                # numpy bool scalars are not numbers.Number: the library does not accept them as scalar operands (outside the claim)
                out.append(dict(base, op=op, kind=kind, dt1=dt1, dt2=dt2, sk=("pybool" if dt2 == "bool" else "np") if kind == "rs" else None))
    # column broadcast onto a lazily selected operand; float16 cells with IEEE-exact arithmetic (a broadcast that goes through
    # differences and a running sum is exact for integers but not for floats)
    for pre in ("rowrev", "rowlist", "rowlist3", "mask", "rowslice_a", "colrev", "colstep2"):
        small = dict(R=3, L=1 if q else 2) if pre == "rowlist3" else dict(R=3, L=2)
        for kind in ("rc", "cr"):
            out.append(dict(small, op="uf_f", kind=kind, dt1="float16", dt2="float16", sk=None, pre=pre))
        out.append(dict(small, op="subtract", kind="rc", dt1="int64", dt2="int64", sk=None, pre=pre))
    for kind in ("rc", "cr"):
        out.append(dict(R=3, L=2, op="uf_f", kind=kind, dt1="float16", dt2="float16", sk=None))          # freshly built operand, float column
    for dt1 in ("int8", "uint8"):
        for kind in ("rs", "sr"):
            out.append(dict(base, op="less", kind=kind, dt1=dt1, dt2="int64", sk="pyint", big=True))          # compared on the mathematical values
    # python scalars on small dtypes (NEP 50: weak)
    for dt1 in ("uint8", "int8", "int32", "bool"):
        for sk in ("pyint", "pybool"):
            for kind in ("rs", "sr"):
                out.append(dict(base, op="add", kind=kind, dt1=dt1, dt2="int64", sk=sk))
    return [dict(h="C04.ufunc", p=p) for p in out]


harness("C04.ufunc", jobs, sym, conc)
