"""C09 -- column aggregates count every row that reaches the column, once.

ra.sum(axis=0) / np.sum(ra, axis=0) for bool, signed, unsigned cells (three of the four dtype branches; float see below),
col_counts(), get_column_values(j).  Row lengths symbolic (at least one non-empty row), cells symbolic.
Assumption (listed in evidence): |cell| < 2^40 so that numpy's weighted bincount, which accumulates in float64, is exact.
"""
import numpy as np
from . import common, c01
from .common import harness, outcome, mk_ragged, pyint


def run_op(ra, p, j=None):
    op = p["op"]
    if p.get("again"):
        # the same question asked before (and its answer kept): asking again gives the same answer, and the first answer is not rewritten
        first = run_op(ra, dict(p, again=False), j)
        if p["again"] == "other":
            ra.col_counts(); ra.mean(axis=0)
    if op == "sum0":
        return ra.sum(axis=0) if p.get("via") != "np" else np.sum(ra, axis=0)
    if op == "mean0":
        return ra.mean(axis=0) if p.get("via") != "np" else np.mean(ra, axis=0)
    if op == "col_counts":
        return ra.col_counts()
    if op == "colvals":
        return ra.get_column_values(pyint(j))
    raise ValueError(op)


def sym(E, p, kf):
    import z3
    from symx import specs
    from npstructures import RaggedArray
    dt = p["dtype"]
    R = E.concretize(E.int("R", 1, p["R"]))
    lens = [E.int(f"l{r}", 0, p["L"]) for r in range(R)]
    E.assume(z3.Or(*[l > 0 for l in lens]))
    S = E.concretize(z3.Sum(lens))
    if dt == "bool":
        data = [E.bool(f"d{q}") for q in range(S)]
    elif dt == "int64":
        data = [E.int(f"d{q}", -(1 << 40), 1 << 40) for q in range(S)]
    else:   # unsigned narrow
        data = [E.int(f"d{q}", 0, 255) for q in range(S)]
    j = None
    if p["op"] == "colvals":
        j = E.int("j", 0, p["L"] - 1)
    ra = mk_ragged(RaggedArray, data, lens, dt)
    got = outcome(lambda: run_op(ra, p, j))
    case = dict(p=p, lens=lens, data=data, j=j)
    if got["k"] != "array" or len(got["shape"]) != 1:
        return dict(goal=False, got=got, case=case)
    if p["op"] == "mean0":
        n = got["shape"][0]
        conds = [z3.And(*[l <= n for l in lens]), z3.Or(*[l == n for l in lens])]
        fdiv = z3.Function("uf_idiv_f64", z3.IntSort(), z3.IntSort(), z3.BitVecSort(64))
        starts, _ = specs.prefix_starts(lens)
        D = specs.store_of(data)
        for c in range(n):
            if dt == "bool":
                sm = z3.Sum([z3.If(z3.And(l > c, z3.Select(D, s + c)), 1, 0) for s, l in zip(starts, lens)])
            else:
                sm = z3.Sum([z3.If(l > c, z3.Select(D, s + c), 0) for s, l in zip(starts, lens)])
            cnt = z3.Sum([z3.If(l > c, 1, 0) for l in lens])
            conds.append(specs.eqv(got["flat"][c], fdiv(sm, cnt)))
        return dict(goal=specs.conj(conds), got=got, case=case)
    if got["dtype"] == "float64":
        # weighted bincount returns float64: the cells are int->float conversions of exact integer sums; compare the integers
        got = dict(got, dtype="int64", flat=[(np._fp_to_int(g, np.dtype("float64"), np.dtype("int64")) if z3.is_expr(g) else (int(g) if isinstance(g, float) else g)) for g in got["flat"]])
    starts, _ = specs.prefix_starts(lens)
    D = specs.store_of(data)
    n = got["shape"][0]
    conds = []
    if p["op"] in ("sum0", "col_counts"):
        # result length = longest row
        conds.append(z3.And(*[l <= n for l in lens]))
        conds.append(z3.Or(*[l == n for l in lens]))
        for c in range(n):
            if p["op"] == "col_counts":
                e = z3.Sum([z3.If(l > c, 1, 0) for l in lens])
            elif dt == "bool":
                e = z3.Sum([z3.If(z3.And(l > c, z3.Select(D, s + c)), 1, 0) for s, l in zip(starts, lens)])
            else:
                e = z3.Sum([z3.If(l > c, z3.Select(D, s + c), 0) for s, l in zip(starts, lens)])
            conds.append(specs.eqv(got["flat"][c], e))
    else:
        cnt = z3.Sum([z3.If(l > j, 1, 0) for l in lens])
        conds.append(cnt == n)
        pref = z3.IntVal(0)
        for r in range(R):
            for k in range(n):
                conds.append(z3.Implies(z3.And(lens[r] > j, pref == k), specs.eqv(got["flat"][k], z3.Select(D, starts[r] + j))))
            pref = pref + z3.If(lens[r] > j, 1, 0)
    return dict(goal=specs.conj(conds), got=got, case=case)


def conc(case):
    from npstructures import RaggedArray
    p, lens, data, j = case["p"], case["lens"], case["data"], case["j"]
    rows = common.rows_of(data, lens)
    ra = mk_ragged(RaggedArray, data, lens, p["dtype"])
    def run():
        r = run_op(ra, p, j)
        if p["op"] != "mean0" and isinstance(r, np.ndarray) and r.dtype.kind == "f" and np.all(r == np.round(r)):
            r = r.astype(np.int64)      # weighted bincount returns float64; C09 claims the numbers, not the element type
        return r
    got = outcome(run)
    m = max(lens)
    if p["op"] == "mean0":
        vals = [np.mean(np.array([r[c] for r in rows if len(r) > c], dtype=p["dtype"])) for c in range(m)]
        return got, common.ref_array(common.cells(np.array(vals, dtype="float64")), [len(vals)], "float64"), {"float_eq": True}
    if p["op"] == "sum0":
        vals = [sum(int(r[c]) for r in rows if len(r) > c) for c in range(m)]
    elif p["op"] == "col_counts":
        vals = [sum(1 for r in rows if len(r) > c) for c in range(m)]
    else:
        vals = [r[j] for r in rows if len(r) > j]
    return got, common.ref_array(vals, [len(vals)], "*"), {"dtype_matters": False}


def jobs(tier, seed):
    q = tier == "quick"
    base = dict(R=4 if q else 5, L=3 if q else 4)
    out = [dict(base, op="sum0", dtype=dt) if (q or dt == "int64") else dict(base, op="sum0", dtype=dt, R=4) for dt in ("int64", "bool", "uint8")]
    out.append(dict(base, op="sum0", dtype="int64", via="np"))
    out.append(dict(base, op="col_counts", dtype="int64"))
    out.append(dict(base, op="mean0", dtype="int64", R=3))
    out.append(dict(base, op="mean0", dtype="int64", via="np", R=3))
    out.append(dict(base, op="mean0", dtype="bool", R=3))
    out.append(dict(base, op="mean0", dtype="uint8", R=3))
    out.append(dict(base, op="colvals", dtype="int64", R=3 if q else 4))
    for op in ("col_counts", "sum0", "mean0"):
        out.append(dict(base, op=op, dtype="int64", R=3, again=True))
    out.append(dict(base, op="col_counts", dtype="int64", R=3, again="other"))
    out.append(dict(base, op="sum0", dtype="int64", R=3, again="other"))
    return [dict(h="C09.columns", p=p) for p in out]


harness("C09.columns", jobs, sym, conc)


# ------------------------------------------------------------------ the same operations on a lazily selected operand (relational)
def _view_ops():
    return {"sum0": lambda d: (d.sum(axis=0) if d.size else ("empty",)), "col_counts": lambda d: (d.col_counts() if d.size else ("empty",)),
            "colvals": lambda d: d.get_column_values(0), "colvals1": lambda d: (d.get_column_values(1) if len(d) and int(np.max(d.lengths)) > 1 else ("no such column",)),
            "sum0_sub": lambda d: (d[1:].sum(axis=0) if d[1:].size else ("empty",)), "counts_sub": lambda d: (d[::-1].col_counts() if d.size else ("empty",)),
            "counts_twice": lambda d: ((d.col_counts(), d.col_counts(), d.col_counts()) if d.size else ("empty",)), "sum0_twice": lambda d: ((d.sum(axis=0), d.sum(axis=0)) if d.size else ("empty",)), "mean0": lambda d: (d.mean(axis=0) if d.size else ("empty",))}


_PREREAD = {"size": lambda a: a.size, "repr": lambda a: repr(a), "rowsum": lambda a: a.sum(axis=-1)}


def sym_onview(E, p, kf):
    import z3
    from symx import specs
    from . import programs
    from npstructures import RaggedArray
    R = E.concretize(E.int("R", 0, p["R"]))
    lens = [E.concretize(E.int(f"l{r}", 0, p["L"])) for r in range(R)]      # shapes forked: the selected rows are then computed on plain lists
    S = sum(lens)
    data = [E.int(f"d{q}", -50, 50) for q in range(S)]
    P = programs.ParamStore(E, B=2)
    case = dict(p=p, lens=lens, data=data, params=P.values)
    conc_ = lambda t: (E.branch(t) if z3.is_bool(t) else E.concretize(t)) if z3.is_expr(t) else t
    od, of, oa = programs.on_view(RaggedArray, lens, data, "int64", p["pre"], _view_ops()[p["op"]], P, conc=conc_, preread=_PREREAD.get(p.get("preread")))
    if od["k"] != of["k"]:
        return dict(goal=False, got=od, case=case)
    goal = specs.conj([specs.obs_goal(od, of) if od["k"] != "raise" else True, specs.obs_goal(oa, dict(k="ragged", flat=data, lens=lens, dtype="int64"))])
    return dict(goal=goal, got=od, case=case)


def conc_onview(case):
    from . import programs
    from npstructures import RaggedArray
    p = case["p"]
    P = programs.ParamStore(None, dict(case["params"]), B=2)
    od, of, oa = programs.on_view(RaggedArray, case["lens"], case["data"], "int64", p["pre"], _view_ops()[p["op"]], P, preread=_PREREAD.get(p.get("preread")))
    if od["k"] == "raise" and of["k"] == "raise":
        of = common.refused()
    return od, of, {"float_eq": True}


def jobs_onview(tier, seed):
    from . import programs
    q = tier == "quick"
    out = []
    for op in _view_ops():
        for pre in programs.VIEW_STEPS:
            if q and pre in ("colstepm2", "colslice_a") and op not in ("sum0", "concat", "cumsum"):
                continue
            if pre == "rowlist3":
                out.append(dict(R=3, L=1 if q else 2, pre=pre, op=op))      # three symbolic row positions: 216 index triples per shape
                continue
            out.append(dict(R=3, L=2, pre=pre, op=op) if q else dict(R=3, L=3, pre=pre, op=op))
    for pre in ("rowslice_a", "mask", "colslice_a"):
        for rd in ("size", "rowsum"):
            out.append(dict(R=3, L=2, pre=pre, op="sum0", preread=rd))
            out.append(dict(R=3, L=2, pre=pre, op="col_counts", preread=rd))
    return [dict(h="C09.onview", p=p) for p in out]


harness("C09.onview", jobs_onview, sym_onview, conc_onview)
