"""C10 -- looking at an array never changes anything.

Relational over histories.  A history: construct a; b = a[selection]; optionally c = b[selection]; a write to a, b or c; final canonical
read of every array in scope.  For each skeleton and each insertion point a read-only operation (repr, iteration, ravel, indexing, integer row,
ufunc, row reduction, tolist, shape, nonzero) is inserted; both histories run on the same symbolic input in one path and all final
observations must be equal.  Single-op form: each read leaves the canonical observation of its operand unchanged.

Known finding KF-C10-1 (open): a lazily selected array aliases its source until its first materialising read, so
{materialising read of the selection, then write to the source} differs from the history without the read.  While that witness still fails,
exactly the skeletons matching the predicate are excluded; every other history is checked.
"""
import numpy as np
from . import common, programs
from .common import harness, outcome, mk_ragged, obs_ragged, obs_any, pyint

SELS = ["rowslice_a", "rowlist", "mask", "colslice_a", "colrev", "colstep2", "rowrev"]
READS = ["elemarr", "colstep_view", "rowcol_view", "size", "repr", "str", "iter", "ravel", "index_view", "rowint", "ufunc", "rowsum", "tolist", "shape", "nonzero", "elem", "npsum"]
NON_MATERIALISING = ("index_view", "shape", "colstep_view", "rowcol_view", "size")
WRITES = ["set_row", "set_col", "set_all"]


SHARED = {}


def shared_pair(P):
    """one (row, column) index-array pair per history: the caller's arrays, used by more than one operation"""
    if "pair" not in SHARED:
        SHARED["pair"] = (common.arr([P.int("er0", -2, 1)], "int64"), common.arr([P.int("ec0", -2, 1)], "int64"))
    return SHARED["pair"]


def do_read(x, kind, P):
    if kind == "elemarr":
        ri, ci = shared_pair(P)
        try:
            x[ri, ci]
        except Exception:
            pass
        return
    if kind == "repr":
        repr(x)
    elif kind == "str":
        str(x)
    elif kind == "iter":
        for _ in x:
            pass
    elif kind == "ravel":
        x.ravel()
    elif kind == "index_view":
        x[:, :1]
    elif kind == "colstep_view":
        x[:, ::2]          # a selection that is taken and dropped
    elif kind == "rowcol_view":
        x[1:, ::2]
    elif kind == "size":
        x.size
    elif kind == "rowint":
        if len(x):
            x[0]
    elif kind == "elem":
        try:
            x[0, 0]
        except Exception:
            pass
    elif kind == "ufunc":
        x + 1
    elif kind == "rowsum":
        x.sum(axis=-1)
    elif kind == "npsum":
        np.sum(x)
    elif kind == "tolist":
        x.tolist()
    elif kind == "shape":
        (len(x), x.shape, x.size)
    elif kind == "nonzero":
        np.nonzero(x)
    else:
        raise ValueError(kind)


def history(RaggedArray, lens, data, sk, P, with_read):
    SHARED.clear()
    a = mk_ragged(RaggedArray, data, lens)
    env = {"a": a}
    rd = sk.get("read")
    pos = rd["pos"] if rd else None

    def maybe(at):
        if with_read and rd and pos == at and rd["target"] in env:
            do_read(env[rd["target"]], rd["kind"], P)
    maybe(0)
    if sk.get("sel"):
        env["b"] = programs.step(a, sk["sel"], P, "s0")
    maybe(1)
    if sk.get("sel2"):
        env["c"] = programs.step(env["b"], sk["sel2"], P, "s1")
    maybe(2)
    w = sk.get("write")
    res = None
    if w:
        res = outcome(lambda: programs.probe(env[w["target"]], w["kind"], P))
    maybe(3)
    fin = sk.get("final")
    fres = {"k": "none"}
    if fin and fin["target"] in env and fin["kind"] == "elemarr":
        ri, ci = shared_pair(P)
        fres = outcome(lambda: (env[fin["target"]][ri, ci], ri, ci))          # the same index arrays again, and what they hold now
    elif fin and fin["target"] in env:
        # the *result* of a later operation must not depend on earlier reads either
        fres = outcome(lambda: programs.probe(env[fin["target"]], fin["kind"], P))
    finals = tuple(obs_ragged(env[k]) for k in ("a", "b", "c") if k in env)
    return (res if res is not None and res.get("k") == "raise" else {"k": "none"}, fres) + finals


def kf_skeleton(sk):
    """KF-C10-1 predicate on skeletons: a materialising read of a not-yet-materialised selection, inserted before a write to its source"""
    rd, w = sk.get("read"), sk.get("write")
    if not rd or not w or rd["kind"] in NON_MATERIALISING:
        return False
    if rd["target"] == "b" and rd["pos"] in (1, 2) and w["target"] == "a":
        return True
    if rd["target"] == "c" and rd["pos"] == 2 and w["target"] in ("a", "b"):
        return True
    if rd["target"] == "b" and rd["pos"] == 1 and sk.get("sel2") and w["target"] in ("a", "b"):
        return True      # c is then selected from the materialised b and aliases *it*: a later write to b shows through c
    return False


def sym(E, p, kf):
    import z3
    from symx import specs
    from npstructures import RaggedArray
    sk = p["sk"]
    if "KF-C10-1" in kf and kf_skeleton(sk):
        raise __import__("symx.engine", fromlist=["x"]).PathPruned()
    R = E.concretize(E.int("R", 1, p["R"]))
    lens = [E.int(f"l{r}", 0, p["L"]) for r in range(R)]
    S = E.concretize(z3.Sum(lens))
    data = [E.int(f"d{q}", -50, 50) for q in range(S)]
    P = programs.ParamStore(E, B=p["B"])
    case = dict(p=p, lens=lens, data=data, params=P.values)
    h0 = outcome(lambda: history(RaggedArray, lens, data, sk, P, False))
    h1 = outcome(lambda: history(RaggedArray, lens, data, sk, P, True))
    if h0["k"] != h1["k"]:
        return dict(goal=False, got=h1, case=case)
    if h0["k"] == "raise":
        return dict(goal=True, got=h1, case=case)
    return dict(goal=specs.obs_goal(h1, h0), got=h1, case=case)


def kf_match(case):
    return ["KF-C10-1"] if kf_skeleton(case["p"]["sk"]) else []


def conc(case):
    from npstructures import RaggedArray
    p = case["p"]
    P = programs.ParamStore(None, dict(case["params"]), B=p["B"])
    h0 = outcome(lambda: history(RaggedArray, case["lens"], case["data"], p["sk"], P, False))
    h1 = outcome(lambda: history(RaggedArray, case["lens"], case["data"], p["sk"], P, True))
    return h1, h0, {"strict_exc": True}


def jobs(tier, seed):
    import random
    q = tier == "quick"
    rnd = random.Random(seed)
    base = dict(R=2, L=2 if q else 3, B=2)
    sks = []
    # single-op: a read leaves its operand unchanged (constructed array and lazy selection)
    for rk in READS:
        sks.append(dict(read=dict(target="a", kind=rk, pos=0)))
        for sel in (["rowslice_a", "colrev", "mask"] if q else SELS):
            sks.append(dict(sel=sel, read=dict(target="b", kind=rk, pos=1)))
    # three-step histories: selection, write, with a read inserted at every position
    full = []
    for sel in SELS:
        for w in [dict(target=t, kind=k) for t in ("a", "b") for k in WRITES]:
            for rk in READS:
                for target, pos in (("a", 0), ("a", 1), ("b", 1), ("a", 3), ("b", 3)):
                    full.append(dict(sel=sel, write=w, read=dict(target=target, kind=rk, pos=pos)))
    core = [s for s in full if s["sel"] in ("rowslice_a", "colrev") and s["write"]["kind"] == "set_row" and s["read"]["kind"] in ("repr", "ravel", "index_view", "rowint", "ufunc")]
    rest = [s for s in full if s not in core]
    rnd.shuffle(rest)
    sks += core + (rest[:60] if q else rest)
    # selection, then an observed operation on it -- with and without an earlier read of the selection or its source
    fins = []
    for sel in ("rowrev", "rowlist", "mask", "colrev", "rowslice_a", "colstep2"):
        for fk in ("rowsum", "colsum", "any", "rslice", "padded", "unique", "rowint", "colslice", "nonzero", "max", "colint", "rowcolint", "colvals"):
            for rk in ("repr", "ravel", "index_view", "rowsum"):
                for target in ("a", "b"):
                    fins.append(dict(sel=sel, read=dict(target=target, kind=rk, pos=1), final=dict(target="b", kind=fk)))
    # the source is looked at *before* the selection is taken; then an operation on the selection
    for sel in ("rowslice_a", "mask", "colslice_a", "rowlist"):
        for fk in ("colsum", "rowsum", "cumsum", "shape"):
            for rk in ("size", "repr", "rowsum", "colstep_view"):
                fins.append(dict(sel=sel, read=dict(target="a", kind=rk, pos=0), final=dict(target="b", kind=fk)))
    for sel in ("rowslice_a", "rowrev", "colrev"):
        for target in ("a", "b"):
            fins.append(dict(sel=sel, read=dict(target=target, kind="elemarr", pos=1), final=dict(target="b", kind="elemarr")))
    for sel in ("addone", "rowslice_a", "mask"):
        for rk in ("rowsum", "npsum", "repr"):
            for target in ("a", "b"):
                fins.append(dict(sel=sel, read=dict(target=target, kind=rk, pos=1), final=dict(target="b", kind="fcol")))
    corefin = [s_ for s_ in fins if s_["final"]["kind"] in ("elemarr", "fcol")]
    corefin += [s_ for s_ in fins if s_["read"]["pos"] == 0 and s_["sel"] in ("rowslice_a", "mask") and s_["final"]["kind"] in ("colsum", "shape") and s_["read"]["kind"] in ("size", "rowsum", "colstep_view")]
    corefin += [s_ for s_ in fins if s_["read"]["pos"] == 1 and s_["read"]["target"] == "b" and s_["read"]["kind"] in ("repr", "index_view") and (
        (s_["sel"] in ("rowrev", "rowlist") and s_["final"]["kind"] in ("rowsum", "colsum", "any", "rslice"))
        or (s_["sel"] in ("rowslice_a", "rowrev", "colstep2") and s_["final"]["kind"] in ("colint", "rowcolint")))]
    restfin = [s_ for s_ in fins if s_ not in corefin]
    rnd.shuffle(restfin)
    sks += corefin + (restfin[:30] if q else restfin)
    # selections of selections
    deep = []
    for sel, sel2 in (("rowslice_a", "colrev"), ("colstep2", "colstep2"), ("mask", "colslice_a"), ("colrev", "rowlist")):
        for w in (dict(target="a", kind="set_row"), dict(target="b", kind="set_col"), dict(target="c", kind="set_row")):
            for rk in ("repr", "index_view", "rowsum", "rowint"):
                for target, pos in (("b", 1), ("c", 2), ("a", 2), ("c", 3)):
                    deep.append(dict(sel=sel, sel2=sel2, write=w, read=dict(target=target, kind=rk, pos=pos)))
    rnd.shuffle(deep)
    sks += deep[:24] if q else deep
    # a selection of a still pending selection, no write at all: c must not depend on whether b (or a) was read before c was taken
    deep2 = []
    for sel in SELS + ["colstepm2"]:
        for sel2 in ("colrev", "colstepm2", "colstep2", "colslice_a", "rowrev", "rowlist", "mask", "rowslice_a"):
            for rk in ("repr", "rowsum"):
                for target in ("b", "a"):
                    deep2.append(dict(sel=sel, sel2=sel2, read=dict(target=target, kind=rk, pos=1)))
    core2 = [s_ for s_ in deep2 if s_["read"] == dict(target="b", kind="repr", pos=1) and s_["sel"] in ("colstep2", "colrev", "colstepm2", "rowrev", "rowslice_a") and s_["sel2"] in ("colrev", "colstepm2", "colslice_a", "rowrev")]
    rest2 = [s_ for s_ in deep2 if s_ not in core2]
    rnd.shuffle(rest2)
    sks += core2 + (rest2[:20] if q else rest2)
    return [dict(h="C10.history", p=dict(base, sk=sk)) for sk in sks]


harness("C10.history", jobs, sym, conc)
