"""C08 -- structural array functions preserve row structure and element order.

concatenate (axis 0 / -1), zeros_like / ones_like / empty_like, as_padded_matrix, nonzero, where, subset / ra[mask], ragged_slice
(ragged, 1-D and 2-D inputs).  Row lengths, cells, masks, fill values and window bounds symbolic.
"""
import numpy as np
from . import common, c01
from .common import harness, outcome, mk_ragged, arr, pyint, cells

DV = 1000


def gen_ra(E, tag, Rmax, L, Rmin=0, kind="int"):
    import z3
    R = E.concretize(E.int(tag + "R", Rmin, Rmax))
    lens = [E.int(f"{tag}l{r}", 0, L) for r in range(R)]
    S = E.concretize(z3.Sum(lens) if lens else z3.IntVal(0))
    data = [E.int(f"{tag}d{q}", -DV, DV) if kind == "int" else E.bool(f"{tag}d{q}") for q in range(S)]
    return lens, data


def run_op(RaggedArray, p, c):
    from npstructures import ragged_slice
    op = p["op"]
    if op == "concat0":
        ras = [mk_ragged(RaggedArray, d, l) for l, d in c["ops"]]
        return (np.concatenate(ras) if p.get("via") != "axis" else np.concatenate(ras, axis=0)), ras
    if op == "concat1":
        dts = p.get("dts") or ["int64"] * len(c["ops"])
        ras = [mk_ragged(RaggedArray, d, l, dts[i]) for i, (l, d) in enumerate(c["ops"])]
        return np.concatenate(ras, axis=-1), (ras if not p.get("dts") else None)
    if op in ("zeros_like", "ones_like", "empty_like"):
        ra = mk_ragged(RaggedArray, c["data"], c["lens"])
        kw = {} if p.get("dtype") is None else {"dtype": p["dtype"]}
        return getattr(np, op)(ra, **kw), ra
    if op == "padded":
        ra = mk_ragged(RaggedArray, c["data"], c["lens"])
        return ra.as_padded_matrix(fill_value=pyint(c["fill"]), side=p["side"]) if p["side"] != "default" else ra.as_padded_matrix(pyint(c["fill"])), ra
    if op == "nonzero":
        ra = mk_ragged(RaggedArray, c["data"], c["lens"], p.get("dtype", "int64"))
        return (np.nonzero(ra) if p.get("via") == "np" else ra.nonzero()), ra
    if op == "where":
        mask = mk_ragged(RaggedArray, c["bits"], c["lens"], "bool")
        x = mk_ragged(RaggedArray, c["x"], c["lens"]) if p["x"] == "ragged" else pyint(c["x"][0])
        y = mk_ragged(RaggedArray, c["y"], c["lens"]) if p["y"] == "ragged" else pyint(c["y"][0])
        return np.where(mask, x, y), mask
    if op in ("subset", "maskindex"):
        ra = mk_ragged(RaggedArray, c["data"], c["lens"])
        mask = mk_ragged(RaggedArray, c["bits"], c["lens"], "bool")
        return (ra.subset(mask) if op == "subset" else ra[mask]), ra
    if op == "rslice":
        src = p["src"]
        if src == "ragged":
            a = mk_ragged(RaggedArray, c["data"], c["lens"])
            if p.get("pre") == "rowrev":
                a = a[::-1]                      # a lazily selected operand (windows are then relative to the *selected* rows)
            elif p.get("pre") == "rowlist":
                a = a[list(range(len(c["lens"]) - 1, -1, -1))]
        elif src == "1d":
            a = arr(c["data"], "int64")
        else:
            if p.get("layout") == "T" and c["r"] and c["c"]:
                # the same matrix as the transposed view of a (c, r) block: logical rows are strided in memory
                base_ = [c["data"][i * c["c"] + j] for j in range(c["c"]) for i in range(c["r"])]
                a = arr(base_, "int64").reshape(c["c"], c["r"]).T
            else:
                a = arr(c["data"], "int64").reshape(c["r"], c["c"])
        st = None if c["starts"] is None else arr(c["starts"], "int64")
        en = None if c["ends"] is None else arr(c["ends"], "int64")
        if p.get("form") == "index":
            # the indexing form of the same operation: x[starts:ends] with vectors as slice bounds
            from npstructures.mixin import NPSArray
            a = a.view(NPSArray) if src != "ragged" else a
            return a[st:en], (st, en)
        return ragged_slice(a, st, en), (st, en)          # the caller's start / end vectors are observed afterwards
    raise ValueError(op)


def sym(E, p, kf):
    import z3
    from symx import specs
    from npstructures import RaggedArray
    op = p["op"]
    c = {}
    if op in ("concat0", "concat1"):
        k = p["k"]
        if op == "concat0":
            c["ops"] = [gen_ra(E, f"o{i}", p["R"], p["L"]) for i in range(k)]
        else:
            R = E.concretize(E.int("R", 0, p["R"]))
            c["ops"] = []
            for i in range(k):
                lens = [E.concretize(E.int(f"o{i}l{r}", 0, p["L"])) for r in range(R)]
                narrow = bool(p.get("dts")) and p["dts"][i] == "uint8"      # operands of different element types: cells of the narrow one fit it
                c["ops"].append((lens, [E.int(f"o{i}d{q}", 0 if narrow else -DV, 99 if narrow else DV) for q in range(sum(lens))]))
    elif op == "where":
        c["lens"], c["bits"] = gen_ra(E, "", p["R"], p["L"], kind="bool")
        S = len(c["bits"])
        c["x"] = [E.int(f"x{q}", -DV, DV) for q in range(S if p["x"] == "ragged" else 1)]
        c["y"] = [E.int(f"y{q}", -DV, DV) for q in range(S if p["y"] == "ragged" else 1)]
    elif op == "rslice" and p["src"] != "ragged":
        if p["src"] == "1d":
            n = E.concretize(E.int("n", 1, p["L"] + 1))      # an empty 1-D source is outside the claim
            c["data"] = [E.int(f"d{q}", -DV, DV) for q in range(n)]
            K = E.concretize(E.int("K", 0, p["R"]))
            c["lens"] = [n] * K
        else:
            c["r"] = E.concretize(E.int("r", 0, p["R"]))
            c["c"] = E.concretize(E.int("c", 0, p["L"]))
            c["data"] = [E.int(f"d{q}", -DV, DV) for q in range(c["r"] * c["c"])]
            c["lens"] = [c["c"]] * c["r"]
    else:
        c["lens"], c["data"] = gen_ra(E, "", p["R"], p["L"], Rmin=1 if op == "padded" else 0,
                                      kind="bool" if p.get("dtype") == "bool" and op == "nonzero" else "int")
        if op == "padded":
            c["fill"] = E.int("fill", -DV, DV)
            E.assume(z3.Or(*[l > 0 for l in c["lens"]]))     # at least one non-empty row (as for C09's column aggregates)
        if op in ("subset", "maskindex"):
            c["bits"] = [E.bool(f"m{q}") for q in range(len(c["data"]))]
    if op == "rslice":
        K = len(c["lens"])
        # 1-D sources take one (start, end) pair per window: both vectors are part of the call there
        pres = E.choose("pres", [(1, 1), (1, 0), (0, 1)] if (p["src"] != "1d" and p.get("form") != "index") else [(1, 1)])      # the indexing form takes both vectors
        c["starts"] = [E.int(f"s{i}", 0, p["L"]) for i in range(K)] if pres[0] else None
        c["ends"] = [E.int(f"e{i}", -p["L"], p["L"] + 1) for i in range(K)] if pres[1] else None
        for i in range(K):
            n = specs.I(c["lens"][K - 1 - i] if p.get("pre") else c["lens"][i])
            if c["starts"] is not None:
                E.assume(c["starts"][i] <= n)
            if c["ends"] is not None:
                E.assume(c["ends"][i] >= -n)
    got = outcome(lambda: run_op(RaggedArray, p, c))
    case = dict(p=p, c=c)
    if got["k"] != "tuple":
        return dict(goal=False, got=got, case=case)
    res = got["items"][0]
    conds = []
    if op == "concat0":
        lens = [l for o in c["ops"] for l in o[0]]
        data = [d for o in c["ops"] for d in o[1]]
        conds.append(specs.obs_goal(res, dict(k="ragged", flat=data, lens=lens, dtype="int64")))
        for o, after in zip(c["ops"], got["items"][1]["items"]):
            conds.append(specs.obs_goal(after, dict(k="ragged", flat=o[1], lens=o[0], dtype="int64")))
    elif op == "concat1":
        R = len(c["ops"][0][0])
        rows = [[] for _ in range(R)]
        for lens, data in c["ops"]:
            for r, row in enumerate(common.rows_of(data, lens)):
                rows[r] += row
        conds.append(specs.obs_goal(res, dict(k="ragged", flat=[x for r in rows for x in r], lens=[len(r) for r in rows], dtype="*")))
    elif op in ("zeros_like", "ones_like", "empty_like"):
        S = len(c["data"])
        v = {"zeros_like": 0, "ones_like": 1, "empty_like": "?"}[op]
        if p.get("dtype") == "bool" and v != "?":
            v = bool(v)
        conds.append(specs.obs_goal(res, dict(k="ragged", flat=[v] * S, lens=c["lens"], dtype=p.get("dtype") or "int64")))
    elif op == "padded":
        lens, data, fill = c["lens"], c["data"], c["fill"]
        R = len(lens)
        if res["k"] != "array" or len(res["shape"]) != 2 or res["shape"][0] != R:
            return dict(goal=False, got=got, case=case)
        M = res["shape"][1]
        conds.append(z3.And(*[l <= M for l in lens]))
        conds.append(z3.Or(*[l == M for l in lens]))
        starts, _ = specs.prefix_starts(lens)
        D = specs.store_of(data)
        for r in range(R):
            for col in range(M):
                g = res["flat"][r * M + col]
                if p["side"] in ("right", "default"):
                    e = z3.If(col < lens[r], z3.Select(D, starts[r] + col), fill)
                else:
                    e = z3.If(col >= M - lens[r], z3.Select(D, starts[r] + col - (M - lens[r])), fill)
                conds.append(specs.eqv(g, e))
    elif op == "nonzero":
        lens, data = c["lens"], c["data"]
        R = len(lens)
        if res["k"] != "tuple" or len(res["items"]) != 2:
            return dict(goal=False, got=got, case=case)
        gr, gc = res["items"]
        N = len(gr["flat"])
        if len(gc["flat"]) != N:
            return dict(goal=False, got=got, case=case)
        nz = [(d if z3.is_bool(d) else d != 0) for d in data]
        conds.append(specs.count_true(nz) == N)
        starts, _ = specs.prefix_starts(lens)
        ends = [s + l for s, l in zip(starts, lens)]
        pref = z3.IntVal(0)
        for q in range(len(data)):
            rowof = z3.IntVal(R - 1) if R else z3.IntVal(0)
            for r in range(R - 2, -1, -1):
                rowof = z3.If(q < ends[r], r, rowof)
            startof = specs.select_chain(starts, rowof)
            for k in range(N):
                conds.append(z3.Implies(z3.And(nz[q], pref == k), z3.And(specs.eqv(gr["flat"][k], rowof), specs.eqv(gc["flat"][k], q - startof))))
            pref = pref + z3.If(nz[q], 1, 0)
    elif op == "where":
        S = len(c["bits"])
        xs = c["x"] if p["x"] == "ragged" else c["x"] * S
        ys = c["y"] if p["y"] == "ragged" else c["y"] * S
        conds.append(specs.obs_goal(res, dict(k="ragged", flat=[z3.If(b, x, y) for b, x, y in zip(c["bits"], xs, ys)], lens=c["lens"], dtype="int64")))
    elif op in ("subset", "maskindex"):
        lens, data, bits = c["lens"], c["data"], c["bits"]
        if op == "maskindex":
            # ra[mask] returns the selected cells as a flat array (row structure is subset()'s job)
            if res["k"] != "array":
                return dict(goal=False, got=got, case=case)
            flat, glens = res["flat"], None
        else:
            if res["k"] != "ragged" or len(res["lens"]) != len(lens):
                return dict(goal=False, got=got, case=case)
            flat, glens = res["flat"], res["lens"]
        N = len(flat)
        conds.append(specs.count_true(bits) == N)
        pref = z3.IntVal(0)
        for q in range(len(data)):
            for k in range(N):
                conds.append(z3.Implies(z3.And(bits[q], pref == k), specs.eqv(flat[k], data[q])))
            pref = pref + z3.If(bits[q], 1, 0)
        if glens is not None:
            starts, _ = specs.prefix_starts(lens)
            for r in range(len(lens)):
                conds.append(specs.eqv(glens[r], z3.Sum([z3.If(z3.And(starts[r] <= q, q < starts[r] + lens[r], bits[q]), 1, 0) for q in range(len(data))]) if data else z3.IntVal(0)))
    elif op == "rslice":
        lens = [specs.I(l) for l in c["lens"]]
        K = len(lens)
        if p["src"] == "1d":
            bases = [z3.IntVal(0)] * K
        else:
            bases, _ = specs.prefix_starts(lens)
        if p.get("pre"):
            lens, bases = lens[::-1], bases[::-1]
        D = specs.store_of(c["data"])
        firsts, counts = [], []
        for i in range(K):
            s = c["starts"][i] if c["starts"] is not None else z3.IntVal(0)
            if c["ends"] is None:
                e = lens[i]
            else:
                ee = c["ends"][i]
                e = z3.If(ee < 0, lens[i] + ee, specs.zmin(ee, lens[i]))
            firsts.append(s)
            counts.append(z3.If(e - s > 0, e - s, 0))
        conds += specs.ragged_matches(res["flat"], res["lens"], counts, lambda k, col: z3.Select(D, bases[k] + firsts[k] + col)) if res["k"] == "ragged" else [False]
        for vec, obs in zip((c["starts"], c["ends"]), got["items"][1]["items"]):
            conds.append(specs.obs_goal(obs, dict(k="array", flat=list(vec), shape=[K], dtype="int64") if vec is not None else dict(k="none")))
    return dict(goal=specs.conj(conds), got=got, case=case)


def conc(case):
    from npstructures import RaggedArray
    p, c = case["p"], case["c"]
    op = p["op"]
    got = outcome(lambda: run_op(RaggedArray, p, c))
    R = common.ref_ragged
    if op == "concat0":
        rows = [r for l, d in c["ops"] for r in common.rows_of(d, l)]
        exp = [R(rows, "int64"), dict(k="tuple", items=[R(common.rows_of(d, l), "int64") for l, d in c["ops"]])]
    elif op == "concat1":
        nrow = len(c["ops"][0][0])
        rows = [[] for _ in range(nrow)]
        for l, d in c["ops"]:
            for r, row in enumerate(common.rows_of(d, l)):
                rows[r] += row
        exp = [R(rows, "*"), dict(k="any")]
    elif op in ("zeros_like", "ones_like", "empty_like"):
        v = {"zeros_like": 0, "ones_like": 1, "empty_like": "?"}[op]
        exp = [R([[v] * n for n in c["lens"]], p.get("dtype") or "int64"), dict(k="any")]
    elif op == "padded":
        rows = common.rows_of(c["data"], c["lens"])
        M = max(c["lens"])
        if p["side"] in ("right", "default"):
            m = [r + [c["fill"]] * (M - len(r)) for r in rows]
        else:
            m = [[c["fill"]] * (M - len(r)) + r for r in rows]
        exp = [common.ref_array([x for r in m for x in r], [len(rows), M], "int64"), dict(k="any")]
    elif op == "nonzero":
        rows = common.rows_of(c["data"], c["lens"])
        co = [(r, k) for r, row in enumerate(rows) for k, v in enumerate(row) if v]
        exp = [dict(k="tuple", items=[common.ref_array([a for a, _ in co], [len(co)], "int64"), common.ref_array([b for _, b in co], [len(co)], "int64")]), dict(k="any")]
    elif op == "where":
        S = len(c["bits"])
        xs = c["x"] if p["x"] == "ragged" else c["x"] * S
        ys = c["y"] if p["y"] == "ragged" else c["y"] * S
        exp = [R(common.rows_of([x if b else y for b, x, y in zip(c["bits"], xs, ys)], c["lens"]), "int64"), dict(k="any")]
    elif op in ("subset", "maskindex"):
        rows = common.rows_of(c["data"], c["lens"])
        mrows = common.rows_of(c["bits"], c["lens"])
        sel = [[v for v, m in zip(r, mr) if m] for r, mr in zip(rows, mrows)]
        if op == "subset":
            exp = [R(sel, "int64"), dict(k="any")]
        else:
            flat = [v for r in sel for v in r]
            exp = [common.ref_array(flat, [len(flat)], "int64"), dict(k="any")]
    elif op == "rslice":
        if p["src"] == "1d":
            rows = [list(c["data"]) for _ in c["lens"]]
        else:
            rows = common.rows_of(c["data"], c["lens"])
        if p.get("pre"):
            rows = rows[::-1]
        out = []
        for i, r in enumerate(rows):
            s = c["starts"][i] if c["starts"] is not None else 0
            if c["ends"] is None:
                e = len(r)
            else:
                e = c["ends"][i]
                e = len(r) + e if e < 0 else min(e, len(r))
            out.append(r[s:e] if e > s else [])
        vecs = [common.ref_array(list(v), [len(v)], "int64") if v is not None else dict(k="none") for v in (c["starts"], c["ends"])]
        exp = [R(out, "int64"), dict(k="tuple", items=vecs)]
    return got, dict(k="tuple", items=exp)


def jobs(tier, seed):
    q = tier == "quick"
    base = dict(R=3 if q else 4, L=3)
    out = [dict(base, op="concat0", k=1), dict(base, op="concat0", k=2, R=2 if q else 3), dict(base, op="concat0", k=2, via="axis", R=2), dict(base, op="concat0", k=3, R=2, L=2),
           dict(base, op="concat1", k=2, R=2, L=2), dict(base, op="concat1", k=2, R=2, L=2, dts=["uint8", "int64"]), dict(base, op="concat1", k=3 if not q else 2, R=3 if not q else 2, L=2)]
    for op in ("zeros_like", "ones_like", "empty_like"):
        out.append(dict(base, op=op))
        out.append(dict(base, op=op, dtype="bool"))
    for side in ("right", "left", "default"):
        out.append(dict(base, op="padded", side=side))
    out += [dict(base, op="nonzero"), dict(base, op="nonzero", via="np"), dict(base, op="nonzero", dtype="bool")]
    for x, y in (("ragged", "ragged"), ("ragged", "scalar")):      # a scalar x is not "of the operands' shape": outside the claim
        out.append(dict(base, op="where", x=x, y=y))
    out += [dict(base, op="subset"), dict(base, op="maskindex")]
    out += [dict(base, op="rslice", src="2d", layout="T"), dict(base, op="rslice", src="2d", form="index"), dict(base, op="rslice", src="1d", form="index"),
            dict(base, op="rslice", src="ragged"), dict(base, op="rslice", src="1d"), dict(base, op="rslice", src="2d"),
            dict(base, op="rslice", src="ragged", pre="rowrev", R=2 if q else 3), dict(base, op="rslice", src="ragged", pre="rowlist", R=2 if q else 3)]
    return [dict(h="C08.struct", p=p) for p in out]


harness("C08.struct", jobs, sym, conc)


# ------------------------------------------------------------------ the same operations on a lazily selected operand (relational)
def _view_ops():
    return {"concat": lambda d: np.concatenate([d, d]), "zeros_like": lambda d: np.zeros_like(d), "padded": lambda d: (d.as_padded_matrix(fill_value=-7) if d.size else ("empty",)),
            "nonzero": lambda d: np.nonzero(d), "nonzero_m": lambda d: d.nonzero(), "where": lambda d: np.where(d > 0, d, 0), "where_xy": lambda d: np.where(mk_ragged(type(d), [True] * int(d.size), [int(x) for x in common.cells(d.shape[1])] if not common.SYMBOLIC else common.cells(d.shape[1]), "bool"), d, 0),
            "rslice": lambda d: __import__("npstructures").ragged_slice(d, None, np.full(len(d), 1)), "subset": lambda d: d.subset(d > 0)}


def sym_onview(E, p, kf):
    import z3
    from symx import specs
    from . import programs
    from npstructures import RaggedArray
    R = E.concretize(E.int("R", 0, p["R"]))
    lens = [E.concretize(E.int(f"l{r}", 0, p["L"])) for r in range(R)]      # shapes forked: the selected rows are then computed on plain lists
    S = sum(lens)
    data = [E.int(f"d{q}", -50, 50) for q in range(S)]
    P = programs.ParamStore(E, B=2)
    case = dict(p=p, lens=lens, data=data, params=P.values)
    conc_ = lambda t: (E.branch(t) if z3.is_bool(t) else E.concretize(t)) if z3.is_expr(t) else t
    od, of, oa = programs.on_view(RaggedArray, lens, data, "int64", p["pre"], _view_ops()[p["op"]], P, conc=conc_)
    if od["k"] != of["k"]:
        return dict(goal=False, got=od, case=case)
    goal = specs.conj([specs.obs_goal(od, of) if od["k"] != "raise" else True, specs.obs_goal(oa, dict(k="ragged", flat=data, lens=lens, dtype="int64"))])
    return dict(goal=goal, got=od, case=case)


def conc_onview(case):
    from . import programs
    from npstructures import RaggedArray
    p = case["p"]
    P = programs.ParamStore(None, dict(case["params"]), B=2)
    od, of, oa = programs.on_view(RaggedArray, case["lens"], case["data"], "int64", p["pre"], _view_ops()[p["op"]], P)
    if od["k"] == "raise" and of["k"] == "raise":
        of = common.refused()
    return od, of, {"float_eq": True}


def jobs_onview(tier, seed):
    from . import programs
    q = tier == "quick"
    out = []
    for op in _view_ops():
        for pre in programs.VIEW_STEPS:
            if q and pre in ("colstepm2", "colslice_a") and op not in ("sum0", "concat", "cumsum"):
                continue
            if pre == "rowlist3":
                out.append(dict(R=3, L=1 if q else 2, pre=pre, op=op))      # three symbolic row positions: 216 index triples per shape
                continue
            out.append(dict(R=3, L=2, pre=pre, op=op) if q else dict(R=3, L=3, pre=pre, op=op))
    return [dict(h="C08.onview", p=p) for p in out]


harness("C08.onview", jobs_onview, sym_onview, conc_onview)
