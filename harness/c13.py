"""C13 -- bit-packing is lossless and position-addressable.

b forks over the job's list; n forks over lengths around the register boundaries; cells are 64-bit vectors constrained < 2^b;
unpack() = input, packed[i] = element i (i symbolic), packed[[i..]].unpack() = those elements, sliding_window(w)[i] = sum_j v[i+j] 2^(b j)
for every window size w with w*b <= 64 (w forks) -- including windows straddling 64-bit registers.
"""
import numpy as np
from . import common
from .common import harness, outcome, arr, pyint, typed


def run(c, p):
    from npstructures import BitArray
    a = typed(c["vals"], p["dtype"])
    if p.get("premask"):
        from npstructures.bitarray import BitMask
        BitMask.zeros(9)          # another class of the module (8-bit registers) used first: nothing of it may leak into BitArray
    ba = BitArray.pack(a, c["b"])
    op = p["op"]
    if op == "unpack":
        return ba.unpack(), a
    if op == "unpack2":
        first = ba.unpack()
        first[...] = 0          # the unpacked array is the caller's: overwriting it must not reach the packed registers
        return ba.unpack(), a
    if op == "getint":
        return ba[pyint(c["i"])], a
    if op == "getlist":
        idx = [pyint(i) for i in c["idx"]] if p.get("aslist") else arr(c["idx"], p.get("idt", "int64"))
        return ba[idx].unpack(), a
    if op == "window":
        return ba.sliding_window(c["w"]), a
    if op == "window2":
        first = ba.sliding_window(c["w0"])          # an earlier call with another window size must not influence a later one
        return ba.sliding_window(c["w"]), a
    if op == "after":
        ba.sliding_window(c["w0"])
        ba[pyint(c["i"])]
        return ba.unpack(), a
    raise ValueError(op)


def sym(E, p, kf):
    import z3
    from symx import specs
    b = E.choose("b", p["bs"])
    k = 64 // b
    ns = sorted(set(x for x in ([1, 2, 3, k - 1, k, k + 1, 2 * k - 1, 2 * k, 2 * k + 1] if p.get("nmode") != "all" else range(1, 2 * k + 3)) if 1 <= x <= p["nmax"]))
    if p.get("nlist"):
        ns = list(p["nlist"])
    if p.get("zero"):
        ns = [0] + ns[:2]          # the empty array packs, unpacks and is indexed by the empty position list
    n = E.choose("n", ns)
    dt = p["dtype"]
    w = {"uint8": 8, "uint16": 16, "int32": 32, "int64": 64, "uint64": 64}[dt]
    if b > w or (b == w and dt.startswith("int")):
        raise __import__("symx.engine", fromlist=["x"]).PathPruned()
    vals = [E.bv(f"v{i}", w) for i in range(n)]
    for v in vals:
        if b < w:
            E.assume(z3.ULT(v, z3.BitVecVal(1 << b, w)))
    c = dict(vals=vals, b=b)
    op = p["op"]
    if op == "getint":
        c["i"] = E.int("i", 0, n - 1)
    elif op == "getlist":
        m = E.concretize(E.int("m", 0 if p.get("zero") else 1, p["m"] if n else 0))
        c["idx"] = [E.int(f"i{j}", 0, n - 1) for j in range(m)]
    elif op == "window":
        ws = list(range(1, min(k, n) + 1))
        if k > 16:        # 32 or 64 entries per register: window sizes around the ends and the middle
            ws = sorted(set(w for w in (1, 2, 3, k // 2, k - 1, k) if w <= min(k, n)))
        c["w"] = E.choose("w", ws)
    elif op == "window2":
        c["w0"] = E.choose("w0", list(range(1, min(k, n) + 1)))
        c["w"] = E.choose("w", list(range(1, min(k, n) + 1)))
    elif op == "after":
        c["w0"] = E.choose("w0", list(range(1, min(k, n) + 1)))
        c["i"] = E.int("i", 0, n - 1)
    got = outcome(lambda: run(c, p))
    case = dict(p=p, c=c)
    if got["k"] != "tuple":
        return dict(goal=False, got=got, case=case)
    res, after = got["items"]
    v64 = [z3.ZeroExt(64 - w, v) if w < 64 else v for v in vals]
    conds = [specs.obs_goal(after, dict(k="array", flat=vals, shape=[n], dtype=dt))]
    if op in ("unpack", "after", "unpack2"):
        conds.append(specs.obs_goal(res, dict(k="array", flat=v64, shape=[n], dtype="uint64")))
    elif op == "getint":
        conds.append(specs.eqv(res["val"], specs.select_chain(v64, c["i"])) if res["k"] == "scalar" else False)
    elif op == "getlist":
        conds.append(specs.obs_goal(res, dict(k="array", flat=[specs.select_chain(v64, i) for i in c["idx"]], shape=[len(c["idx"])], dtype="uint64")))
    elif op in ("window", "window2"):
        ww = c["w"]
        exp = []
        for i in range(n - ww + 1):
            e = z3.BitVecVal(0, 64)
            for j in range(ww):
                e = e | (v64[i + j] << (b * j))
            exp.append(e)
        conds.append(specs.obs_goal(res, dict(k="array", flat=exp, shape=[len(exp)], dtype="uint64")))
    return dict(goal=specs.conj(conds), got=got, case=case)


def conc(case):
    p, c = case["p"], case["c"]
    got = outcome(lambda: run(c, p))
    vals, b, op = c["vals"], c["b"], p["op"]
    A = common.ref_array
    if op in ("unpack", "after", "unpack2"):
        res = A(vals, [len(vals)], "uint64")
    elif op == "getint":
        res = common.ref_scalar(vals[c["i"]], "uint64")
    elif op == "getlist":
        res = A([vals[i] for i in c["idx"]], [len(c["idx"])], "uint64")
    else:
        w = c["w"]
        res = A([sum(vals[i + j] << (b * j) for j in range(w)) for i in range(len(vals) - w + 1)], [len(vals) - w + 1], "uint64")
    return got, dict(k="tuple", items=[res, A(vals, [len(vals)], p["dtype"])])


def jobs(tier, seed):
    q = tier == "quick"
    out = []
    bsets = [[32], [16], [8], [4]] + ([] if q else [[2], [1]])
    for bs in bsets:
        nmax = {32: 7, 16: 10, 8: 18, 4: 34, 2: 67, 1: 130}[bs[0]]
        nmax_list = {2: 34, 1: 66}.get(bs[0], nmax)      # position lists: select chains over more than one register's worth of 1/2-bit cells time out
        if q:
            nmax = min(nmax, {32: 5, 16: 9, 8: 17, 4: 17}[bs[0]])
        for op in ("unpack", "getint", "getlist", "window"):
            # position lists of three entries only for b >= 8 (the select chains over 34..130 cells times three positions time out below)
            out.append(dict(bs=bs, nmax=nmax_list if op == "getlist" and not q else nmax, op=op, dtype="uint64", m=3 if (not q and bs[0] >= 8) else 2, nmode="edges" if (q or bs[0] < 4) else "all"))
    for dt in ("uint8", "uint16", "int32", "int64"):
        out.append(dict(bs=[4, 8], nmax=9 if q else 17, op="unpack", dtype=dt))
        out.append(dict(bs=[4], nmax=17, op="window", dtype=dt, nmode="edges"))
    out.append(dict(bs=[8], nmax=9, op="getlist", dtype="uint64", m=2, aslist=True))
    out.append(dict(bs=[16], nmax=6, op="window2", dtype="uint64", nmode="all"))
    out.append(dict(bs=[8], nmax=10, op="window2", dtype="uint8", nmode="edges"))
    out.append(dict(bs=[16], nmax=6, op="after", dtype="uint64", nmode="all"))
    out.append(dict(bs=[1], nmax=66, op="window", dtype="uint64", nmode="edges", premask=True))
    out.append(dict(bs=[4, 16], nmax=3, op="unpack", dtype="uint8", zero=True))
    out.append(dict(bs=[8, 32, 2], nmax=9, op="unpack2", dtype="uint64", nmode="edges"))
    out.append(dict(bs=[8], nmax=34, op="getlist", dtype="uint64", m=1, idt="uint8", nmode="edges", nlist=[33, 34]))          # positions given in a narrow type
    out.append(dict(bs=[32], nmax=10, op="getlist", dtype="uint64", m=1, idt="uint8", nmode="all", nlist=[9, 10]))
    out.append(dict(bs=[8], nmax=3, op="getlist", dtype="uint64", m=2, zero=True))
    out.append(dict(bs=[8], nmax=3, op="getlist", dtype="uint64", m=2, zero=True, aslist=True))
    out.append(dict(bs=[2, 8], nmax=33, op="unpack", dtype="uint8", nmode="edges", premask=True))
    if q:
        out.append(dict(bs=[2], nmax=33, op="window", dtype="uint64", nmode="edges"))
        out.append(dict(bs=[1], nmax=65, op="unpack", dtype="uint64", nmode="edges"))
    return [dict(h="C13.bits", p=p) for p in out]


harness("C13.bits", jobs, sym, conc)
