"""C16 -- arithmetic on run-length arrays equals arithmetic on the dense arrays.

Two dense inputs of equal length n (64-bit vectors): every relative alignment of the two run-boundary sets arises from the symbolic cell
equalities.  unary ufunc, binary ufunc of two run-length arrays, scalar on either side; sum / any / all / max; concatenate.
Decoded result = ufunc of the dense operands; binary results canonical (no empty run, adjacent values differ); operands unchanged.
For sum the run layout is forked first (run length x value products stay linear).
"""
import numpy as np
from . import common, c14
from .common import harness, outcome, typed, arr, pyint, cells


def run(c, p):
    from npstructures import RunLengthArray
    op = p["op"]
    a = RunLengthArray.from_array(typed(c["a"], p.get("dta", "int64")))
    b = RunLengthArray.from_array(typed(c["b"], p.get("dtb", "int64"))) if c.get("b") is not None else None
    kind = p["kind"]
    if kind == "unary":
        r = getattr(np, op)(a)
    elif kind == "rr":
        r = getattr(np, op)(a, b)
    elif kind == "rr_shared":
        # two run-length operands derived from one array (scalar ufuncs keep its run boundaries): the binary result must still be canonical
        s1, s2 = pyint(c["s"]), pyint(c["s2"])
        if op == "between":
            r = np.logical_and(np.greater(a, s1), np.less(a, s2))
        elif op == "selfsub":
            r = np.subtract(a, a)
        elif op == "timesmask":
            r = np.multiply(np.add(a, s1), np.greater(a, s2))
        else:
            raise ValueError(op)
    elif kind == "rs":
        r = getattr(np, op)(a, pyint(c["s"]))
    elif kind == "sr":
        r = getattr(np, op)(pyint(c["s"]), a)
    elif kind == "opr":
        r = {"add": lambda x, y: x + y, "subtract": lambda x, y: x - y, "rsub": lambda x, y: y - x}[op](a, pyint(c["s"]))
    elif kind == "reduce":
        r = {"mean": lambda: a.mean(), "npmean": lambda: np.mean(a), "sum": lambda: a.sum(), "npsum": lambda: np.sum(a), "any": lambda: np.any(a), "all": lambda: np.all(a), "max": lambda: a.max(),
             "mall": lambda: a.all(), "many": lambda: a.any()}[op]()
        return ("val", r), a.to_array(), None
    elif kind == "reduce_derived":
        # reductions of arrays that are results themselves (scalar ufuncs keep the operand's run boundaries: neighbours may be equal)
        s1 = pyint(c["s"])
        d = {"gt": lambda: np.greater(a, s1), "mulzero": lambda: np.multiply(a, 0), "concat": lambda: np.concatenate([np.greater(a, s1), np.greater(a, s1)])}[p["how"]]()
        r = {"any": lambda: d.any(), "npany": lambda: np.any(d), "all": lambda: d.all(), "sum": lambda: d.sum(), "max": lambda: d.max()}[op]()
        return ("val", r), a.to_array(), None
    elif kind == "r_dense":
        other = typed(c["b"], "int64")          # a dense operand of another length: numpy refuses the shapes, so must the library
        r = np.add(a, other) if op == "add" else np.add(other, a) if op == "radd" else a + other
        return ("dense", np.asarray(r) if not hasattr(r, "to_array") else r.to_array()), a.to_array(), None
    elif kind == "concat":
        parts = [a, b] + ([RunLengthArray.from_array(typed(c["c3"], "int64"))] if c.get("c3") is not None else [])
        r = np.concatenate(parts)
    return ("rla", r.to_array(), r._events, r._values), a.to_array(), (b.to_array() if b is not None else None)


def da_(a, dta):
    return typed(a, dta)


def _shared_dense(np_, op, da, s1, s2):
    if op == "between":
        return np_.logical_and(np_.greater(da, s1), np_.less(da, s2))
    if op == "selfsub":
        return np_.subtract(da, da)
    return np_.multiply(np_.add(da, s1), np_.greater(da, s2))


def sym(E, p, kf):
    import z3
    from symx import specs
    kind, op = p["kind"], p["op"]
    n = E.concretize(E.int("n", 1, p["n"]))
    dta, dtb = p.get("dta", "int64"), p.get("dtb", "int64")
    a = c14.gen_vals(E, n, dta, "a")
    if kind == "reduce" and op in ("mean", "npmean") and dta != "bool":
        a = [E.int(f"a{i}", -1000, 1000) for i in range(n)]       # Int-represented: the mean is an abstract quotient of exact integers
    c = dict(a=a, b=None)
    if kind == "rr":
        c["b"] = c14.gen_vals(E, n, dtb, "b")
    elif kind == "concat":
        m = E.concretize(E.int("m", 1, p["n"]))
        c["b"] = c14.gen_vals(E, m, dtb, "b")
        if p.get("three"):
            c["c3"] = c14.gen_vals(E, E.concretize(E.int("m3", 1, 2)), "int64", "c")
    elif kind in ("rs", "sr", "opr"):
        c["s"] = E.int("s", -100 if not dta.startswith("u") else 0, 100)          # a python integer outside the element type is refused by numpy itself (NEP 50): not this property
    elif kind == "rr_shared":
        c["s"], c["s2"] = E.int("s", -100, 100), E.int("s2", -100, 100)
    elif kind == "reduce_derived":
        c["s"] = E.int("s", -100, 100)
    elif kind == "r_dense":
        m = E.concretize(E.int("m", 1, p["n"] + 1))
        if m == n:
            raise __import__("symx.engine", fromlist=["x"]).PathPruned()
        c["b"] = c14.gen_vals(E, m, "int64", "b")
    if kind == "reduce" and op in ("sum", "npsum", "mean", "npmean"):
        for i in range(n - 1):
            E.branch(a[i] == a[i + 1])          # fork the run layout: run lengths become concrete
    got = outcome(lambda: run(c, p))
    case = dict(p=p, c=c)
    if got["k"] != "tuple":
        return dict(goal=(kind == "r_dense"), got=got, case=case)          # r_dense: refusing is the expected outcome
    if kind == "r_dense":
        return dict(goal=False, got=got, case=case)          # reached only if the call returned something
    res, a_after, b_after = got["items"]
    conds = [specs.obs_goal(a_after, dict(k="array", flat=a, shape=[n], dtype=dta))]
    if kind == "reduce_derived":
        s1 = pyint(c["s"])
        dd = {"gt": lambda: np.greater(da_(a, dta), s1), "mulzero": lambda: np.multiply(da_(a, dta), 0), "concat": lambda: np.concatenate([np.greater(da_(a, dta), s1)] * 2)}[p["how"]]()
        cellsd = cells(dd)
        v = res["items"][1]
        if op in ("any", "npany"):
            want = z3.Or(*[(x if z3.is_bool(x) else x != 0) for x in cellsd])
        elif op == "all":
            want = z3.And(*[(x if z3.is_bool(x) else x != 0) for x in cellsd])
        elif op == "sum":
            want = z3.Sum([(z3.If(x, 1, 0) if z3.is_bool(x) else specs.I(x)) for x in cellsd])
        else:
            want = z3.Or(*cellsd) if all(z3.is_bool(x) for x in cellsd) else None
        conds.append(specs.eqv(v["val"], want) if want is not None else True)
        return dict(goal=specs.conj(conds), got=got, case=case)
    if kind == "rr":
        conds.append(specs.obs_goal(b_after, dict(k="array", flat=c["b"], shape=[n], dtype=dtb)))
    if kind == "concat":
        conds.append(specs.obs_goal(b_after, dict(k="array", flat=c["b"], shape=[len(c["b"])], dtype=dtb)))
    # expected dense result: the same ufunc on the dense arrays (symbolic numpy)
    da = typed(a, dta)
    if kind == "reduce":
        v = res["items"][1]
        if dta == "bool" and op in ("sum", "npsum", "mean", "npmean", "max"):
            cnt = z3.Sum([z3.If(x, 1, 0) for x in a])          # numpy counts the True elements
            if op in ("sum", "npsum"):
                conds.append(specs.eqv(v["val"], cnt))
            elif op == "max":
                conds.append(specs.eqv(v["val"], z3.Or(*a)))
            else:
                fdiv = z3.Function("uf_idiv_f64", z3.IntSort(), z3.IntSort(), z3.BitVecSort(64))
                conds.append(specs.eqv(v["val"], fdiv(cnt, z3.IntVal(n))))
        elif op in ("sum", "npsum") and dta != "int64":
            bits = c14.BITS[dta]
            ext = (lambda x: z3.SignExt(64 - bits, x)) if dta.startswith("int") else (lambda x: z3.ZeroExt(64 - bits, x))
            e = ext(a[0])
            for x in a[1:]:
                e = e + ext(x)
            conds.append(specs.eqv(v["val"], e))          # numpy sums small integers in 64 bits
        elif op in ("mean", "npmean"):
            fdiv = z3.Function("uf_idiv_f64", z3.IntSort(), z3.IntSort(), z3.BitVecSort(64))
            conds.append(specs.eqv(v["val"], fdiv(z3.Sum(a), z3.IntVal(n))))
        elif op in ("sum", "npsum"):
            e = a[0]
            for x in a[1:]:
                e = e + x
            conds.append(specs.eqv(v["val"], e))
        elif op in ("any", "many"):
            conds.append(specs.eqv(v["val"], z3.Or(*[x != 0 for x in a])))
        elif op in ("all", "mall"):
            conds.append(specs.eqv(v["val"], z3.And(*[x != 0 for x in a])))
        elif op == "max":
            conds.append(z3.And(*[v["val"] >= x for x in a]))
            conds.append(z3.Or(*[specs.eqv(v["val"], x) for x in a]))
        return dict(goal=specs.conj(conds), got=got, case=case)
    if kind == "unary":
        exp = getattr(np, op)(da)
    elif kind == "rr":
        exp = getattr(np, op)(da, typed(c["b"], dtb))
    elif kind == "rr_shared":
        exp = _shared_dense(np, op, da, pyint(c["s"]), pyint(c["s2"]))
    elif kind == "rs":
        exp = getattr(np, op)(da, pyint(c["s"]))
    elif kind == "sr":
        exp = getattr(np, op)(pyint(c["s"]), da)
    elif kind == "opr":
        s = pyint(c["s"])
        exp = da + s if op == "add" else da - s if op == "subtract" else s - da
    elif kind == "concat":
        exp = np.concatenate([da, typed(c["b"], dtb)] + ([typed(c["c3"], "int64")] if c.get("c3") is not None else []))
    tag, dense, ev, vv = res["items"]
    conds.append(specs.obs_goal(dense, dict(k="array", flat=cells(exp), shape=[exp.shape[0]], dtype=common.dtname(exp))))
    conds += c14.canon_conds(ev["flat"], vv["flat"], exp.shape[0], common.dtname(exp), distinct_neighbours=(kind in ("rr", "rr_shared")))
    return dict(goal=specs.conj(conds), got=got, case=case)


def conc(case):
    p, c = case["p"], dict(case["c"])
    kind, op = p["kind"], p["op"]
    dta, dtb = p.get("dta", "int64"), p.get("dtb", "int64")
    c["a"] = c14.signed_vals(c["a"], dta)
    if c.get("b") is not None:
        c["b"] = c14.signed_vals(c["b"], dtb)
    if c.get("c3") is not None:
        c["c3"] = c14.signed_vals(c["c3"], "int64")
    got = outcome(lambda: run(c, p))
    canon = True
    if got["k"] == "tuple" and got["items"][0]["k"] == "tuple" and len(got["items"][0]["items"]) == 4:
        from . import c15
        canon = c15._canonical_concrete(got["items"][0], need_distinct=(kind in ("rr", "rr_shared")))
        got["items"][0] = dict(k="tuple", items=got["items"][0]["items"][:2] + [dict(k="scalar", val=canon, dtype="py")])      # decoded content + canonical-form verdict
    da = typed(c["a"], dta)
    A = common.ref_array
    a_obs = A(c["a"], [len(c["a"])], dta)
    b_obs = A(c["b"], [len(c["b"])], dtb) if c.get("b") is not None else {"k": "none"}
    import warnings
    if kind == "r_dense":
        return got, common.refused()
    if kind == "reduce_derived":
        dd = {"gt": lambda: np.greater(da, c["s"]), "mulzero": lambda: np.multiply(da, 0), "concat": lambda: np.concatenate([np.greater(da, c["s"])] * 2)}[p["how"]]()
        v = {"any": lambda: bool(dd.any()), "npany": lambda: bool(dd.any()), "all": lambda: bool(dd.all()), "sum": lambda: int(dd.sum()), "max": lambda: (bool(dd.max()) if dd.dtype == bool else int(dd.max()))}[op]()
        return got, dict(k="tuple", items=[dict(k="tuple", items=[dict(k="any"), dict(k="scalar", val=v, dtype="*")]), a_obs, {"k": "none"}]), {"dtype_matters": False}
    if kind == "reduce":
        if op in ("mean", "npmean"):
            m = common.cells(np.array([np.mean(da)]))[0]
            return got, dict(k="tuple", items=[dict(k="tuple", items=[dict(k="any"), dict(k="scalar", val=m, dtype="float64")]), a_obs, {"k": "none"}]), {"float_eq": True}
        v = {"sum": lambda: int(da.sum()), "npsum": lambda: int(da.sum()), "any": lambda: bool(da.any()), "many": lambda: bool(da.any()),
             "all": lambda: bool(da.all()), "mall": lambda: bool(da.all()), "max": lambda: int(da.max())}[op]()
        return got, dict(k="tuple", items=[dict(k="tuple", items=[dict(k="any"), dict(k="scalar", val=v, dtype="*")]), a_obs, {"k": "none"}]), {"dtype_matters": False}
    if kind == "unary":
        e = getattr(np, op)(da)
    elif kind == "rr":
        e = getattr(np, op)(da, typed(c["b"], dtb))
    elif kind == "rr_shared":
        e = _shared_dense(np, op, da, c["s"], c["s2"])
    elif kind == "rs":
        e = getattr(np, op)(da, c["s"])
    elif kind == "sr":
        e = getattr(np, op)(c["s"], da)
    elif kind == "opr":
        e = da + c["s"] if op == "add" else da - c["s"] if op == "subtract" else c["s"] - da
    else:
        e = np.concatenate([da, typed(c["b"], dtb)] + ([typed(c["c3"], "int64")] if c.get("c3") is not None else []))
    exp = dict(k="tuple", items=[dict(k="any"), A(cells(e), [len(e)], str(e.dtype)), dict(k="scalar", val=True, dtype="py")])
    return got, dict(k="tuple", items=[exp, a_obs, b_obs if kind in ("rr", "concat") else dict(k="any")])


def _strip_sym(got):
    if got["k"] == "tuple" and got["items"][0]["k"] == "tuple" and len(got["items"][0]["items"]) == 4:
        g = dict(got)
        g["items"] = [dict(k="tuple", items=got["items"][0]["items"][:2] + [dict(k="scalar", val=True, dtype="py")])] + got["items"][1:]
        return g
    return got


def sym_wrapped(E, p, kf):
    r = sym(E, p, kf)
    r["got"] = _strip_sym(r["got"])
    return r


def jobs(tier, seed):
    q = tier == "quick"
    n = 3 if q else 4
    out = []
    # (cell * cell on 64-bit data is outside reach: a symbolic-by-symbolic multiplication; rs/sr cover multiplication by a constant operand)
    for op in ("add", "subtract", "maximum", "less", "bitwise_and") + (() if q else ("equal", "minimum", "bitwise_xor")):
        out.append(dict(kind="rr", op=op, n=3 if op == "subtract" else n))
    for op in ("negative", "invert", "absolute"):
        out.append(dict(kind="unary", op=op, n=n))
    out.append(dict(kind="unary", op="logical_not", n=n, dta="bool"))
    for op in ("subtract", "less", "add"):
        out.append(dict(kind="rs", op=op, n=n))
        out.append(dict(kind="sr", op=op, n=n))
    for op in ("add", "subtract", "rsub"):
        out.append(dict(kind="opr", op=op, n=n))
    for op in ("sum", "npsum", "any", "all", "max", "mall", "many", "mean", "npmean"):
        out.append(dict(kind="reduce", op=op, n=n + 1))
    for dt in ("uint8", "int8", "uint16"):
        out.append(dict(kind="reduce", op="sum", n=n + 1, dta=dt))
    out.append(dict(kind="concat", op="concatenate", n=2 if q else 3))
    out.append(dict(kind="concat", op="concatenate", n=2, three=True))
    for dta_, dtb_ in (("int8", "int16"), ("uint8", "int64"), ("int64", "uint8"), ("bool", "int8")):
        out.append(dict(kind="concat", op="concatenate", n=2, dta=dta_, dtb=dtb_))      # numpy's promoted element type, values unchanged
    for op in ("sum", "npsum", "mean", "max"):
        out.append(dict(kind="reduce", op=op, n=n + 1, dta="bool"))
    out.append(dict(kind="rr", op="logical_or", n=n, dta="bool", dtb="bool"))
    for op in ("between", "selfsub", "timesmask"):
        out.append(dict(kind="rr_shared", op=op, n=n))
    for dt_ in ("int8", "uint8"):
        for kind_ in ("rs", "sr", "opr"):
            out.append(dict(kind=kind_, op="add", n=n, dta=dt_))          # a python scalar keeps the array's element type (and wraps in it)
        out.append(dict(kind="rs", op="subtract", n=n, dta=dt_))
    for how, ops in (("gt", ("any", "npany", "all", "sum", "max")), ("mulzero", ("any", "all")), ("concat", ("any", "sum"))):
        for op in ops:
            out.append(dict(kind="reduce_derived", op=op, how=how, n=n))
    for op in ("add", "radd", "plus"):
        out.append(dict(kind="r_dense", op=op, n=3))
    out.append(dict(kind="rr", op="add", n=n, dta="uint8", dtb="int8"))
    return [dict(h="C16.arith", p=p) for p in out]


harness("C16.arith", jobs, sym_wrapped, conc)


# ------------------------------------------------------------------ histogram
def _hist_kw(c):
    kw = dict(bins=c["bins"])
    if c["range"] is not None:
        kw["range"] = tuple(c["range"])
    if c["density"]:
        kw["density"] = True
    return kw


def run_hist(c, p):
    from npstructures import RunLengthArray
    a = RunLengthArray.from_array(typed(c["a"], "int64"))
    h, e = np.histogram(a, **_hist_kw(c))
    return h, e, a.to_array()


def sym_hist(E, p, kf):
    from symx import specs
    n = E.concretize(E.int("n", 1, p["n"]))
    a = [E.int(f"a{i}", -1, 5) for i in range(n)]
    c = dict(a=a, bins=E.choose("bins", p["bins"]), range=E.choose("range", p["ranges"]), density=E.choose("density", [False, True]))
    got = outcome(lambda: run_hist(c, p))
    case = dict(p=p, c=c)
    # numpy's histogram of the dense array (symbolic numpy: symbolic bin membership, exact IEEE quotients for density)
    exp = outcome(lambda: np.histogram(typed(a, "int64"), **_hist_kw(c)) + (typed(a, "int64"),))
    if got["k"] != exp["k"]:
        return dict(goal=False, got=got, case=case)
    return dict(goal=specs.obs_goal(got, exp) if got["k"] != "raise" else True, got=got, case=case)


def conc_hist(case):
    c = case["c"]
    got = outcome(lambda: run_hist(c, case["p"]))
    import warnings
    with warnings.catch_warnings():
        warnings.simplefilter("ignore")
        exp = outcome(lambda: np.histogram(np.array(c["a"], dtype="int64"), **_hist_kw(c)) + (np.array(c["a"], dtype="int64"),))
    if got["k"] == "raise" and exp["k"] == "raise":
        exp = common.refused()
    return got, exp, {"float_eq": True}


def jobs_hist(tier, seed):
    q = tier == "quick"
    return [dict(h="C16.hist", p=dict(n=3 if q else 4, bins=[1, 2, 3], ranges=[None, [0, 4], [1, 3], [2, 2]] + ([] if q else [[-3, 9], [4, 1]])))]


harness("C16.hist", jobs_hist, sym_hist, conc_hist)
