"""C05 -- row reductions equal numpy's per-row reductions, empty rows included.

Symbolic: row lengths (empty rows anywhere, incl. all rows empty and R=0), cell values.
Forked: R, S, the number of non-empty rows where the code asks, the entry point (job parameter).
Oracle 1: per-row fold written over symbolic row membership; oracle 2: python fold per row.
"""
import numpy as np
from . import common
from .common import harness, outcome, mk_ragged

DV = 1 << 20


def _call(ra, op, via, keepdims=False):
    """the entry points named in the property's observe_at"""
    uf = {"mean": None, "argmax": None, "argmin": None, "sum": np.add, "prod": np.multiply, "any": np.logical_or, "all": np.logical_and, "max": np.maximum, "min": np.minimum,
          "bor": np.bitwise_or, "band": np.bitwise_and, "bxor": np.bitwise_xor}[op]
    kw = {"keepdims": True} if keepdims else {}
    if op == "mean":
        if via == "method":
            return ra.mean(axis=-1, **kw)
        if via == "np":
            return np.mean(ra, axis=-1)
        if via == "none":
            return ra.mean()
    if op in ("argmax", "argmin"):
        if via == "method":
            return getattr(ra, op)(axis=-1, **kw)
        if via == "np":
            return getattr(np, op)(ra, axis=-1)
        if via == "none":
            return getattr(ra, op)()
    if via == "method":
        return getattr(ra, op)(axis=-1, **kw)
    if via == "method1":
        return getattr(ra, op)(axis=1, **kw)
    if via == "np":
        return getattr(np, op)(ra, axis=-1)
    if via == "reduce":
        return uf.reduce(ra, axis=-1)
    if via == "none":
        return getattr(ra, op)()
    if via == "npnone":
        return getattr(np, op)(ra)
    raise ValueError(via)


def _dtype(op):
    return {"any": "bool", "all": "bool", "bor": "uint8", "bxor": "uint8", "band": "int8"}.get(op, "int64")


def _dtype_p(p):
    return p.get("dtype") or _dtype(p["op"])


def gen(E, p):
    import z3
    op = p["op"]
    minlen = 1 if op == "mean" or (op in ("max", "min", "argmax", "argmin") and not p.get("empties")) else 0
    R = E.concretize(E.int("R", p.get("Rmin", 0), p["R"]))
    lens = [E.int(f"l{r}", minlen, p["L"]) for r in range(R)]
    if p.get("empties"):
        E.assume(z3.Or(*[l > 0 for l in lens]))      # max/min with empty rows present: at least one non-empty row, only those are compared
    S = E.concretize(z3.Sum(lens) if lens else z3.IntVal(0))
    dt = _dtype_p(p)
    if p.get("bvdata"):
        data = [E.bv(f"d{q}", 64) for q in range(S)]      # genuine 64-bit integers: conversions and float arithmetic are IEEE-exact
        if p["bvdata"] == "big":
            for d in data:
                E.assume(z3.And(d >= (1 << 62), d > 0))      # magnitudes whose sums leave the 64-bit range
    elif dt.startswith("float"):
        from . import c01
        data = c01.gen_cells(E, S, dt)          # bit patterns, IEEE-exact comparisons and arithmetic; NaN excluded except where asked for
        if not p.get("nan"):
            for d in data:
                E.assume(z3.Not(z3.fpIsNaN(np._to_fp(d, np.dtype(dt)))))
    elif dt == "bool":
        data = [E.bool(f"d{q}") for q in range(S)]
    elif dt in ("uint8", "int8"):
        data = [E.bv(f"d{q}", 8) for q in range(S)]
    else:
        data = [E.int(f"d{q}", -DV, DV) for q in range(S)]
    return R, lens, S, data, dt


def z3_fold(op, lens, data, dt):
    """expected per-row results as z3 terms"""
    import z3
    from symx import specs
    starts, _ = specs.prefix_starts(lens)
    out = []
    for r in range(len(lens)):
        inrow = [z3.And(starts[r] <= q, q < starts[r] + lens[r]) for q in range(len(data))]
        if op == "sum":
            out.append(z3.Sum([z3.If(c, d, 0) for c, d in zip(inrow, data)]) if data else z3.IntVal(0))
        elif op == "prod":
            mul = z3.Function("uf_mul_int", z3.IntSort(), z3.IntSort(), z3.IntSort())
            acc, started = z3.IntVal(1), z3.BoolVal(False)
            for c, d in zip(inrow, data):
                acc = z3.If(c, z3.If(started, mul(acc, d), d), acc)
                started = z3.Or(started, c)
            out.append(acc)
        elif op == "any":
            out.append(z3.Or(*[z3.And(c, d if z3.is_bool(d) else d != 0) for c, d in zip(inrow, data)]) if data else z3.BoolVal(False))
        elif op == "all":
            out.append(z3.And(*[z3.Implies(c, d if z3.is_bool(d) else d != 0) for c, d in zip(inrow, data)]) if data else z3.BoolVal(True))
        elif op in ("bor", "bxor", "band"):
            ident = z3.BitVecVal(0xFF if op == "band" else 0, 8)
            acc = ident
            for c, d in zip(inrow, data):
                acc = z3.If(c, {"bor": acc | d, "bxor": acc ^ d, "band": acc & d}[op], acc)
            out.append(acc)
        elif op in ("max", "min"):
            out.append(("bound", inrow))
        elif op == "mean":
            # numpy's float division of the exact integer row sum by the row length (the quotient itself is numpy's C loop: uninterpreted)
            fdiv = z3.Function("uf_idiv_f64", z3.IntSort(), z3.IntSort(), z3.BitVecSort(64))
            out.append(fdiv(z3.Sum([z3.If(c, d, 0) for c, d in zip(inrow, data)]) if data else z3.IntVal(0), lens[r]))
    return out


def sym(E, p, kf):
    import z3
    from symx import specs
    from npstructures import RaggedArray
    R, lens, S, data, dt = gen(E, p)
    if p["op"] == "prod":
        E.notes["uf_mul"] = True
    ra = mk_ragged(RaggedArray, data, lens, dt)
    via = p["via"]
    if p.get("pre"):
        # the same reduction on a (lazy) selection: rows reversed / a row list -- the row starts of such a view are not sorted
        from . import programs
        P = programs.ParamStore(E, B=2)
        sel = programs.step(ra, p["pre"], P, "s0")
        got = outcome(lambda: _call(sel, p["op"], via, p.get("keepdims", False)))
        fresh = mk_ragged(RaggedArray, data, lens, dt)
        ref = programs.step(fresh, p["pre"], P, "s0")
        o = common.obs_ragged(ref)
        if p["op"] in ("argmax", "argmin") and len(o["lens"]) == 0:
            raise __import__("symx.engine", fromlist=["x"]).PathPruned()      # no row at all: outside the claim ("for every non-empty row"), as for freshly built arrays (Rmin=1)
        exp_arr = outcome(lambda: _call(RaggedArray(common.typed(o["flat"], dt), common.arr(o["lens"], "int64")), p["op"], via, p.get("keepdims", False)))
        case = dict(lens=lens, data=data, op=p["op"], via=via, keepdims=p.get("keepdims", False), dtype=dt, pre=p["pre"], params=P.values)
        return dict(goal=specs.obs_goal(got, exp_arr) if got["k"] == exp_arr["k"] else False, got=got, case=case)
    got = outcome(lambda: _call(ra, p["op"], via, p.get("keepdims", False)))
    case = dict(lens=lens, data=data, op=p["op"], via=via, keepdims=p.get("keepdims", False), dtype=dt)
    import z3 as _z
    if got["k"] == "raise":
        return dict(goal=False, got=got, case=case)
    conds = []
    if p["op"] in ("argmax", "argmin"):
        unsigned = dt.startswith("uint")

        def better(a, b):      # a strictly better than b
            if z3.is_bv(a):
                return (z3.UGT(a, b) if unsigned else a > b) if p["op"] == "argmax" else (z3.ULT(a, b) if unsigned else a < b)
            return a > b if p["op"] == "argmax" else a < b
        starts, _ = specs.prefix_starts(lens)
        if via == "none":
            g = got["val"] if got["k"] == "scalar" else None
            if g is None:
                return dict(goal=False, got=got, case=case)
            g = specs.I(g)
            conds += [g >= 0, g < S]
            for q in range(S):
                conds.append(z3.Implies(g == q, z3.And(*[z3.Not(better(data[t], data[q])) for t in range(S)] + [better(data[q], data[t]) for t in range(q)])))
            return dict(goal=specs.conj(conds), got=got, case=case)
        def row_ok(g, r):
            g = specs.I(g)
            cs = [g >= 0, g < lens[r]]
            for q in range(S):
                here = z3.And(starts[r] <= q, q < starts[r] + lens[r], g == q - starts[r])
                best = [z3.Implies(z3.And(starts[r] <= t, t < starts[r] + lens[r]), z3.Not(better(data[t], data[q]))) for t in range(S)]
                first = [z3.Implies(z3.And(starts[r] <= t, t < q), better(data[q], data[t])) for t in range(q)]
                cs.append(z3.Implies(here, z3.And(*(best + first))))
            return z3.And(*cs)
        if got["k"] != "array" or len(got["shape"]) != (2 if p.get("keepdims") else 1) or (p.get("keepdims") and got["shape"][1] != 1):
            return dict(goal=False, got=got, case=case)
        n = got["shape"][0]
        if not p.get("empties"):
            if n != R:
                return dict(goal=False, got=got, case=case)
            conds += [row_ok(got["flat"][r], r) for r in range(R)]
        else:
            # empty rows present: "for every non-empty row".  Two result layouts say that: one entry per row (entries of empty rows
            # unconstrained), or one entry per non-empty row, in row order (what the library returns)
            aligned = z3.And(*[z3.Implies(lens[r] > 0, row_ok(got["flat"][r], r)) for r in range(R)]) if n == R else z3.BoolVal(False)
            rank = [z3.Sum([z3.If(lens[t] > 0, 1, 0) for t in range(r)]) if r else z3.IntVal(0) for r in range(R)]
            count = z3.Sum([z3.If(l > 0, 1, 0) for l in lens])
            compact = z3.And(count == n, *[z3.Implies(z3.And(lens[r] > 0, rank[r] == j), row_ok(got["flat"][j], r)) for r in range(R) for j in range(min(n, r + 1))])
            conds.append(z3.Or(aligned, compact))
        after = common.cells(ra.ravel())
        conds += [specs.eqv(a, b) for a, b in zip(after, data)]
        return dict(goal=specs.conj(conds), got=got, case=case)
    if p["op"] == "mean" and p.get("bvdata"):
        # one row of 64-bit integers: numpy's own mean of that row (float64 accumulation), computed by the symbolic numpy on the plain array
        exp1 = np.mean(common.typed(data, "int64"))
        ok = got["k"] == "array" and got["shape"] == [1]
        return dict(goal=specs.eqv(got["flat"][0], common.cells(exp1)[0]) if ok else False, got=got, case=case)
    exp = z3_fold(p["op"], lens, data, dt)
    if dt.startswith("float"):
        if got.get("dtype") not in (dt, None) or p["op"] not in ("max", "min"):
            return dict(goal=False, got=got, case=case)          # the extremum of float cells is one of them: same float type
        fp = lambda x: np._to_fp(x if z3.is_expr(x) else z3.BitVecVal(int(x), np.dtype(dt).itemsize * 8), np.dtype(dt))
        GE, LE, EQ = (lambda a, b: z3.fpGEQ(fp(a), fp(b))), (lambda a, b: z3.fpLEQ(fp(a), fp(b))), (lambda a, b: z3.fpEQ(fp(a), fp(b)))
        ISNAN = lambda a: z3.fpIsNaN(fp(a))
    else:
        GE, LE, EQ = (lambda a, b: a >= b), (lambda a, b: a <= b), specs.eqv
    if via in ("none", "npnone"):
        if got["k"] != "scalar":
            return dict(goal=False, got=got, case=case)
        whole = z3_fold(p["op"], [z3.IntVal(S)], data, dt)[0]
        if p["op"] in ("max", "min"):
            g = got["val"]
            conds.append(z3.And(*[(GE(g, d) if p["op"] == "max" else LE(g, d)) for d in data]))
            conds.append(z3.Or(*[EQ(g, d) for d in data]))
        else:
            conds.append(specs.eqv(got["val"], whole))
    else:
        if got["k"] != "array" or got["shape"] != ([R, 1] if p.get("keepdims") else [R]):
            return dict(goal=False, got=got, case=case)
        for r in range(R):
            g = got["flat"][r]
            if p["op"] in ("max", "min"):
                inrow = exp[r][1]
                if p.get("nan"):
                    # numpy's maximum / minimum propagate NaN: a row holding a NaN has the extremum NaN
                    anynan = z3.Or(*[z3.And(c, ISNAN(d)) for c, d in zip(inrow, data)]) if data else z3.BoolVal(False)
                    conds.append(z3.Implies(anynan, ISNAN(g)))
                    conds.append(z3.Implies(z3.Not(anynan), z3.And(*[z3.Implies(c, (GE(g, d) if p["op"] == "max" else LE(g, d))) for c, d in zip(inrow, data)])))
                    conds.append(z3.Implies(z3.Not(anynan), z3.Or(lens[r] == 0, *[z3.And(c, EQ(g, d)) for c, d in zip(inrow, data)])))
                    continue
                conds.append(z3.And(*[z3.Implies(c, (GE(g, d) if p["op"] == "max" else LE(g, d))) for c, d in zip(inrow, data)]))
                conds.append(z3.Or(lens[r] == 0, *[z3.And(c, EQ(g, d)) for c, d in zip(inrow, data)]))      # nothing is claimed for an empty row
            else:
                conds.append(specs.eqv(g, exp[r]))
    # operand unchanged
    after = common.cells(ra.ravel())
    conds += [specs.eqv(a, b) for a, b in zip(after, data)]
    return dict(goal=specs.conj(conds), got=got, case=case)


def _pyfold(op, row, dt):
    import functools
    if op == "sum":
        return sum(row)
    if op == "prod":
        return functools.reduce(lambda a, b: a * b, row, 1)
    if op == "any":
        return any(row)
    if op == "all":
        return all(row)
    if op in ("max", "min") and any(x != x for x in row):
        return float("nan")          # numpy's maximum / minimum propagate NaN (python's max / min depend on the position of the NaN)
    if op == "max":
        return max(row)
    if op == "min":
        return min(row)
    if op == "bor":
        return functools.reduce(lambda a, b: a | b, row, 0)
    if op == "bxor":
        return functools.reduce(lambda a, b: a ^ b, row, 0)
    if op == "band":
        return functools.reduce(lambda a, b: a & b, row, -1)
    if op == "mean":
        return common.cells(np.array([np.mean(np.array(row, dtype=dt))]))[0]
    if op == "argmax":
        return row.index(max(row))
    if op == "argmin":
        return row.index(min(row))


def _res_dtype(op, dt):
    if op in ("any", "all"):
        return "bool"
    if op in ("sum", "prod"):
        return "int64"
    if op == "mean":
        return "float64"
    if op in ("argmax", "argmin"):
        return "*"
    return dt


def conc(case):
    from npstructures import RaggedArray
    dt = case["dtype"]
    data = case["data"]
    if dt == "int8":
        data = [d - 256 if d >= 128 else d for d in data]
    if dt == "int64":
        data = [d - (1 << 64) if d >= 1 << 63 else d for d in data]
    rows = common.rows_of(data, case["lens"])
    mkdata = (lambda: common.typed(data, dt)) if dt.startswith("float") else (lambda: np.array(data, dtype=dt) if data else [])
    ra = mk_ragged(RaggedArray, mkdata(), case["lens"], dt) if not dt.startswith("float") else RaggedArray(mkdata(), np.array(case["lens"], dtype="int64"))
    if case.get("pre"):
        from . import programs
        P = programs.ParamStore(None, dict(case["params"]), B=2)
        ra = programs.step(ra, case["pre"], P, "s0")
        fresh = mk_ragged(RaggedArray, mkdata(), case["lens"], dt) if not dt.startswith("float") else RaggedArray(mkdata(), np.array(case["lens"], dtype="int64"))
        rows = common.rows_of(*[common.obs_ragged(programs.step(fresh, case["pre"], P, "s0"))[k] for k in ("flat", "lens")])
    if dt.startswith("float"):
        rows = [[float(x) for x in common.typed(r, dt)] if r else [] for r in rows]      # bit patterns -> numbers for the plain-Python fold
    got = outcome(lambda: _call(ra, case["op"], case["via"], case["keepdims"]))
    rd = _res_dtype(case["op"], dt)
    if case["via"] in ("none", "npnone"):
        exp = common.ref_scalar(_pyfold(case["op"], [c for r in rows for c in r], dt), "*")
    else:
        vals = [(_pyfold(case["op"], r, dt) if (r or case["op"] not in ("max", "min", "argmax", "argmin")) else "?") for r in rows]
        if case["op"] in ("argmax", "argmin") and "?" in vals and not (got["k"] == "array" and got["shape"][0] == len(rows)):
            vals = [v for v in vals if v != "?"]      # one entry per non-empty row, in row order
        if dt.startswith("float") and case["op"] in ("max", "min"):
            vals = [v if v == "?" else common.cells(np.array([v], dtype=dt))[0] for v in vals]
        exp = common.ref_array(vals, [len(vals), 1] if case["keepdims"] else [len(vals)], rd)
    # C05 claims the numbers; the element type of the result is C04's subject and not compared here
    if case["op"] == "mean" or dt.startswith("float"):
        return got, exp, {"float_eq": True, "dtype_matters": case["op"] != "mean" and not case["op"].startswith("arg")}
    return got, exp, {"dtype_matters": False}


def jobs(tier, seed):
    q = tier == "quick"
    base = dict(R=4 if q else 5, L=3 if q else 4)
    out = []
    for op in ("sum", "prod", "any", "all", "bor", "bxor", "band"):
        for via in ("method", "reduce"):
            if via == "method" and op.startswith("b"):
                continue
            out.append(dict(base, op=op, via=via))
    for op in ("sum", "prod", "any", "all"):
        out.append(dict(base, op=op, via="np"))
        out.append(dict(base, op=op, via="method", keepdims=True))
        out.append(dict(base, op=op, via="none", Rmin=1 if op in ("prod",) else 0))
    out.append(dict(base, op="sum", via="method1"))
    # truth value of integer cells (a row of non-zero integers without a common bit is still all-true)
    for op in ("any", "all"):
        for dt in ("int64", "int8"):
            for via in ("np", "method"):
                out.append(dict(base, op=op, via=via, dtype=dt, R=3))
        out.append(dict(base, op=op, via="np", dtype="int64", keepdims=False, R=3, L=2, npkw=True))
    for pre in ("rowrev", "rowlist", "mask", "colrev"):
        for op, via in (("sum", "method"), ("any", "reduce"), ("prod", "method"), ("all", "np")):
            if q and (op, via) not in (("sum", "method"), ("any", "reduce")):
                continue
            out.append(dict(base, op=op, via=via, pre=pre, R=3, L=2 if q else 3))
        out.append(dict(base, op="sum", via="none", pre=pre, R=3, L=2))
        if pre in ("rowrev", "rowlist"):
            out.append(dict(base, op="max", via="none", pre=pre, R=3, L=2, Rmin=1))
    out.append(dict(base, op="sum", via="npnone"))
    for via in ("method", "np", "none"):
        out.append(dict(base, op="mean", via=via, Rmin=1, R=3))
    out.append(dict(base, op="mean", via="method", keepdims=True, Rmin=1, R=3))
    out.append(dict(op="mean", via="method", Rmin=1, R=1, L=2, bvdata=True))      # values up to the full 64-bit range
    out.append(dict(op="mean", via="method", Rmin=1, R=1, L=3, bvdata="big"))
    for op in ("argmax", "argmin"):
        small = dict(R=2, L=3) if q else dict(R=2, L=4)
        for dt in ("int64", "uint8", "int8"):
            out.append(dict(base, op=op, via="method", Rmin=1, dtype=dt, **small))
        out.append(dict(base, op=op, via="np", Rmin=1, **(dict(R=2, L=2) if q else small)))
        out.append(dict(base, op=op, via="none", Rmin=1, R=2, L=3))
        out.append(dict(base, op=op, via="method", keepdims=True, Rmin=1, **(dict(R=2, L=2) if q else small)))
        out.append(dict(base, op=op, via="method", Rmin=1, empties=True, R=3, L=2))
        for pre in ("mask", "rowrev"):
            # first use of a lazy selection, integer and float16 cells (the comparison with the broadcast row extremum must be exact for floats too)
            out.append(dict(base, op=op, via="method", Rmin=1, R=2 if q else 3, L=2, pre=pre, dtype="float16"))
            out.append(dict(base, op=op, via="np", Rmin=1, R=3, L=2, pre=pre))
    for op in ("max", "min"):
        out.append(dict(base, op=op, via="method", Rmin=1, empties=True, dtype="float16", R=3, L=2))      # float cells, empty rows anywhere
        out.append(dict(base, op=op, via="reduce", Rmin=1, dtype="float16", R=2, L=2))
        out.append(dict(base, op=op, via="method", Rmin=1, dtype="float16", R=2, L=2, nan=True))          # rows may hold NaN
        out.append(dict(base, op=op, via="method", Rmin=1, empties=True))
        out.append(dict(base, op=op, via="reduce", Rmin=1, empties=True, R=3))
        for via in ("method", "reduce", "np"):
            out.append(dict(base, op=op, via=via, Rmin=1))
        out.append(dict(base, op=op, via="method", keepdims=True, Rmin=1))
        out.append(dict(base, op=op, via="none", Rmin=1))
    return [dict(h="C05.reduce", p=p) for p in out]


harness("C05.reduce", jobs, sym, conc, "row reductions through every entry point")
