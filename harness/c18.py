"""C18 -- an npdataclass keeps its columns aligned under every operation.

Classes with 1..3 array fields (1-D and 2-D); common length n forked, cells and selectors symbolic.
Oracle: the same selector applied (by numpy itself, on the symbolic numpy / real numpy) to every field separately.
"""
import numpy as np
from . import common
from .common import harness, outcome, arr, pyint, obs_array, obs_any, cells

_CLS = {}


def classes():
    if not _CLS:
        from npstructures import npdataclass

        @npdataclass
        class One:
            a: np.ndarray

        @npdataclass
        class Two:
            a: np.ndarray
            b: np.ndarray

        @npdataclass
        class Three:
            a: np.ndarray
            b: np.ndarray
            m: np.ndarray

        @npdataclass
        class Narrow:
            b: np.ndarray
        @npdataclass
        class Swapped:
            m: np.ndarray
            a: np.ndarray

        def factory(swap):
            # two different tables that share module and qualified name (a class statement executed twice)
            if swap:
                @npdataclass
                class Dup:
                    b: np.ndarray
                    a: np.ndarray
            else:
                @npdataclass
                class Dup:
                    a: np.ndarray
                    b: np.ndarray
                    m: np.ndarray
            return Dup
        _CLS.update(One=One, Two=Two, Three=Three, Narrow=Narrow, Swapped=Swapped, DupA=factory(False), DupB=factory(True))
    return _CLS


FIELDS = {"One": ["a"], "Two": ["a", "b"], "Three": ["a", "b", "m"]}


def mk_fields(c, cname, vals):
    """vals: dict field -> flat cells; field m is 2-D (n x 2)"""
    out = []
    for f in FIELDS[cname]:
        a = arr(vals[f], "int64")
        if f == "m":
            a = a.reshape(-1, 2)
        out.append(a)
    return out


def build_sel(c):
    t = c["sel"]["t"]
    s = c["sel"]
    if t == "int":
        return pyint(s["i"])
    if t == "slice":
        return slice(pyint(s.get("a")), pyint(s.get("b")), s.get("s"))
    if t == "list":
        return [pyint(i) for i in s["v"]]
    if t == "array":
        return arr(s["v"], "int64")
    if t == "mask":
        return arr(s["v"], "bool") if not s.get("aslist") else [common.pyval(b) for b in s["v"]]


def fields_obs(o, names):
    return tuple(getattr(o, f) for f in names)


def run(c, p):
    C = classes()
    cname, op = p["cls"], p["op"]
    names = FIELDS[cname]
    if op == "badlen":
        return C[cname](*[arr(c["vals"][f], "int64") for f in names])
    obj = C[cname](*mk_fields(c, cname, c["vals"]))
    if p.get("kw"):
        # the same table built with keyword arguments from plain python lists
        obj = C[cname](**{f: ([pyint(x) for x in c["vals"][f]] if f != "m" else mk_fields(c, cname, c["vals"])[names.index("m")]) for f in names})
    if op == "len":
        return len(obj)
    if op == "getitem":
        return fields_obs(obj[build_sel(c)], names)
    if op == "iter":
        return tuple(fields_obs(e, names) for e in obj)
    if op == "iter2":
        # two iterations over one table at a time (zip with itself, a loop inside a loop), then a plain one
        pairs = tuple((fields_obs(x, names), fields_obs(y, names)) for x, y in zip(obj, obj))
        nested = sum(1 for _ in obj for _ in obj)
        return pairs, nested, tuple(fields_obs(e, names) for e in obj)
    if op == "concat":
        others = [C[cname](*mk_fields(c, cname, v)) for v in c["more"]]
        return fields_obs(np.concatenate([obj] + others), names)
    if op == "concat_mixed":
        # the first table's column a is narrower than the second's: numpy's promoted element type, every entry unchanged
        first = C[cname](*[arr(c["vals"][f], "uint8" if f == "a" else "int64") for f in names])
        others = [C[cname](*mk_fields(c, cname, v)) for v in c["more"]]
        return fields_obs(np.concatenate([first] + others), names)
    if op == "eq":
        other = C[cname](*mk_fields(c, cname, c["more"][0]))
        return obj == other
    if op == "astype":
        return fields_obs(obj.astype(C["Narrow"]), ["b"])
    if op == "astype2":
        return fields_obs(obj.astype(C["Swapped"]), ["m", "a"])
    if op == "dup":
        # cname is Three: the same columns in two tables of the same qualified name, used alternately
        a, b, m = mk_fields(c, cname, c["vals"])
        oa, ob = C["DupA"](a, b, m), C["DupB"](b, a)
        sel = build_sel(c)
        return (len(oa), len(ob), fields_obs(oa[sel], ["a", "b", "m"]), fields_obs(ob[sel], ["b", "a"]), fields_obs(np.concatenate([ob, ob]), ["b", "a"]),
                fields_obs(oa[sel], ["a", "b", "m"]), bool(ob == C["DupB"](b, a)))
    if op == "eq_shape":
        # same length, same leading numbers, but entry i of field m is a pair in one table and a single number in the other
        a, b, m = mk_fields(c, cname, c["vals"])
        return obj == C[cname](a, b, m[:, :1])
    raise ValueError(op)


def expected(c, p):
    """the same selector on every field, by numpy itself"""
    cname, op = p["cls"], p["op"]
    names = FIELDS[cname]
    fs = dict(zip(names, mk_fields(c, cname, c["vals"])))
    if op == "len":
        return len(fs[names[0]])
    if op == "getitem":
        sel = build_sel(c)
        return tuple(fs[f][sel] for f in names)
    if op == "iter":
        n = len(fs[names[0]])
        return tuple(tuple(fs[f][i] for f in names) for i in range(n))
    if op == "iter2":
        n = len(fs[names[0]])
        rows = tuple(tuple(fs[f][i] for f in names) for i in range(n))
        return tuple((r, r) for r in rows), n * n, rows
    if op == "concat":
        parts = [fs] + [dict(zip(names, mk_fields(c, cname, v))) for v in c["more"]]
        return tuple(np.concatenate([pt[f] for pt in parts]) for f in names)
    if op == "concat_mixed":
        parts = [fs] + [dict(zip(names, mk_fields(c, cname, v))) for v in c["more"]]
        return tuple(np.concatenate([pt[f] for pt in parts]) for f in names)
    if op == "astype":
        return (fs["b"],)
    if op == "astype2":
        return (fs["m"], fs["a"])
    if op == "dup":
        sel = build_sel(c)
        n = len(fs["a"])
        one = (fs["a"][sel], fs["b"][sel], fs["m"][sel])
        return (n, n, one, (fs["b"][sel], fs["a"][sel]), (np.concatenate([fs["b"], fs["b"]]), np.concatenate([fs["a"], fs["a"]])), one, True)


def gen(E, p):
    import z3
    cname, op = p["cls"], p["op"]
    names = FIELDS[cname]
    n = E.concretize(E.int("n", p.get("nmin", 0) if op not in ("getitem",) or p.get("sel") != "int" else 1, p["n"]))

    def cellsfor(tag, n_):
        return {f: [E.int(f"{tag}{f}{i}", -99, 99) for i in range(n_ * (2 if f == "m" else 1))] for f in names}
    c = dict(vals=cellsfor("x", n))
    if op == "badlen":
        lens = [E.concretize(E.int(f"len{f}", 0, p["n"])) for f in names]
        if len(set(lens)) == 1:
            raise __import__("symx.engine", fromlist=["x"]).PathPruned()
        c["vals"] = {f: [E.int(f"x{f}{i}", -99, 99) for i in range(l)] for f, l in zip(names, lens)}
    if op in ("getitem", "dup"):
        t = p["sel"]
        B = n + 1
        if t == "int":
            c["sel"] = {"t": "int", "i": E.int("i", -n, n - 1)}
        elif t == "slice":
            pres = E.choose("pres", [(0, 0), (1, 0), (0, 1), (1, 1)])
            c["sel"] = {"t": "slice", "a": E.int("a", -B, B) if pres[0] else None, "b": E.int("b", -B, B) if pres[1] else None, "s": p.get("s")}
        elif t in ("list", "array"):
            k = E.concretize(E.int("k", 1 if n else 0, p["k"] if n else 0))
            c["sel"] = {"t": t, "v": [E.int(f"i{j}", -n, n - 1) for j in range(k)]}
        elif t == "mask":
            c["sel"] = {"t": "mask", "v": [E.bool(f"m{i}") for i in range(n)], "aslist": bool(p.get("aslist"))}
    if op == "concat_mixed":
        for v in c["vals"]["a"]:
            E.assume(z3.And(v >= 0, v <= 99))          # fits the narrow element type of the first table
    if op in ("concat", "eq", "concat_mixed"):
        c["more"] = []
        for j in range(p.get("k", 1)):
            nj = n if op == "eq" else E.concretize(E.int(f"n{j}", 0, p["n"]))
            c["more"].append(cellsfor(f"y{j}", nj) if op != "concat_mixed" else {f: [E.int(f"y{j}{f}{i}", -999, 999) for i in range(nj)] for f in names})
    return c, n


def sym(E, p, kf):
    import z3
    from symx import specs
    c, n = gen(E, p)
    op = p["op"]
    got = outcome(lambda: run(c, p))
    case = dict(p=p, c=c)
    if op == "badlen":
        return dict(goal=(got["k"] == "raise"), got=got, case=case)
    if op == "eq_shape":
        # the tables differ in every entry (n >= 1): anything but "equal" is accepted
        return dict(goal=(got["k"] == "raise" or (got["k"] == "scalar" and got["val"] is False) or (got["k"] == "scalar" and not isinstance(got["val"], bool) and specs.eqv(got["val"], False))), got=got, case=case)
    if got["k"] == "raise":
        return dict(goal=False, got=got, case=case)
    if op == "eq":
        names = FIELDS[p["cls"]]
        same = z3.And(*[a == b for f in names for a, b in zip(c["vals"][f], c["more"][0][f])]) if n else z3.BoolVal(True)
        return dict(goal=specs.eqv(got["val"], same) if got["k"] == "scalar" else False, got=got, case=case)
    exp = obs_any(expected(c, p))
    return dict(goal=specs.obs_goal(got, exp), got=got, case=case)


def conc(case):
    p, c = case["p"], case["c"]
    op = p["op"]
    got = outcome(lambda: run(c, p))
    if op == "badlen":
        return got, common.refused()
    if op == "eq_shape":
        return got, (common.refused() if got["k"] == "raise" else dict(k="scalar", val=False, dtype="*"))
    if op == "eq":
        names = FIELDS[p["cls"]]
        same = all(c["vals"][f] == c["more"][0][f] for f in names)
        return got, dict(k="scalar", val=same, dtype="*")
    return got, obs_any(expected(c, p))


# ------------------------------------------------------------------ VarLenArray
def run_vl(c, p):
    from npstructures import VarLenArray
    parts = [VarLenArray(arr(v, "int64").reshape(l, w)) for (l, w, v) in c["parts"]]
    r = np.concatenate(parts)
    return r.array


def sym_vl(E, p, kf):
    from symx import specs
    k = p["k"]
    parts = []
    for j in range(k):
        l = E.concretize(E.int(f"l{j}", 0 if j else 1, p["n"]))
        w = E.concretize(E.int(f"w{j}", 1, p["w"]))
        parts.append((l, w, [E.int(f"x{j}_{i}", -99, 99) for i in range(l * w)]))
    c = dict(parts=parts)
    got = outcome(lambda: run_vl(c, p))
    W = max(w for _, w, _ in parts)
    flat = []
    for l, w, v in parts:
        for r in range(l):
            flat += [0] * (W - w) + v[r * w:(r + 1) * w]
    exp = dict(k="array", flat=flat, shape=[sum(l for l, _, _ in parts), W], dtype="int64")
    return dict(goal=specs.obs_goal(got, exp), got=got, case=dict(p=p, c=c))


def conc_vl(case):
    c = case["c"]
    got = outcome(lambda: run_vl(c, case["p"]))
    W = max(w for _, w, _ in c["parts"])
    flat = []
    for l, w, v in c["parts"]:
        for r in range(l):
            flat += [0] * (W - w) + v[r * w:(r + 1) * w]
    return got, common.ref_array(flat, [sum(l for l, _, _ in c["parts"]), W], "int64")


def jobs(tier, seed):
    q = tier == "quick"
    n = 3 if q else 4
    out = []
    for cls in ("One", "Two", "Three"):
        out.append(dict(cls=cls, op="len", n=n))
        out.append(dict(cls=cls, op="iter", n=n))
        out.append(dict(cls=cls, op="iter2", n=n))
        for sel in ("int", "list", "mask", "array"):
            out.append(dict(cls=cls, op="getitem", sel=sel, n=n, k=2))
        for s in (None, -1, 2):
            out.append(dict(cls=cls, op="getitem", sel="slice", s=s, n=n))
        out.append(dict(cls=cls, op="concat", n=2, k=1))
        out.append(dict(cls=cls, op="eq", n=n, k=1))
    out.append(dict(cls="Two", op="concat", n=2, k=2))
    out.append(dict(cls="Two", op="getitem", sel="mask", n=n, k=2, aslist=True))
    for op_, extra in (("getitem", dict(sel="mask")), ("getitem", dict(sel="list")), ("eq", {}), ("len", {}), ("iter", {}), ("getitem", dict(sel="slice", s=None))):
        out.append(dict(dict(cls="Two", op=op_, n=2 if q else 3, k=2, kw=True, nmin=1), **extra))          # (an empty python list has numpy's default element type: not part of the claim)
    out.append(dict(cls="Two", op="concat_mixed", n=2, k=1))
    out.append(dict(cls="Two", op="badlen", n=2))
    out.append(dict(cls="Three", op="badlen", n=2))
    out.append(dict(cls="Two", op="astype", n=n))
    out.append(dict(cls="Three", op="astype", n=n))
    out.append(dict(cls="Three", op="astype2", n=n))
    for sel in ("list", "mask"):
        out.append(dict(cls="Three", op="dup", sel=sel, n=2 if q else 3, k=2))
    out.append(dict(cls="Three", op="dup", sel="slice", s=-1, n=2 if q else 3))
    out.append(dict(cls="Three", op="eq_shape", n=n, nmin=1))
    js = [dict(h="C18.table", p=p) for p in out]
    js += [dict(h="C18.varlen", p=dict(k=2, n=2, w=3)), dict(h="C18.varlen", p=dict(k=3, n=2 if q else 3, w=2 if q else 3))]
    return js


harness("C18.table", jobs, sym, conc)
harness("C18.varlen", lambda t, s: [], sym_vl, conc_vl)
