"""C17 -- 2-D and ragged run-length arrays behave as one run-length array per row.

Structure (rows, row lengths, selector parameters) and the run layout (one branch per adjacent-cell equality) are forked, so run boundaries
are concrete per path; cell values, scalars and column operands stay solver variables.  Oracle: the dense rows (python lists whose leaves
are z3 terms on the symbolic side and ints at replay) pushed through plain list operations -- the same reference code on both sides.
"""
import numpy as np
from . import common
from .common import harness, outcome, mk_ragged, arr, pyint, obs_any, obs_ragged, obs_array, cells

VMAX = 3


# ------------------------------------------------------------------ leaf arithmetic that works on ints and on z3 terms
def _sym(x):
    return hasattr(x, "sort")


def zmax2(a, b):
    if _sym(a) or _sym(b):
        import z3
        return z3.If(a >= b, a, b)
    return max(a, b)


def zany(xs):
    if any(_sym(x) for x in xs):
        import z3
        return z3.Or(*[x != 0 for x in xs])
    return any(x != 0 for x in xs)


def zall(xs):
    if any(_sym(x) for x in xs):
        import z3
        return z3.And(*[x != 0 for x in xs])
    return all(x != 0 for x in xs)


def zsum(xs):
    t = 0
    for x in xs:
        t = t + x
    return t


def zargmax(xs):
    """index of the first maximum"""
    if not any(_sym(x) for x in xs):
        return xs.index(max(xs))
    import z3
    best = len(xs) - 1
    for i in range(len(xs) - 2, -1, -1):
        is_max = z3.And(*[xs[i] >= y for y in xs])
        best = z3.If(is_max, i, best)
    return best


# ------------------------------------------------------------------ the operations
def build(c, p):
    from npstructures import RaggedArray, RunLengthRaggedArray, RunLength2dArray
    rows = c["rows"]
    if p["variant"] == "intervals":
        kw = {} if c.get("value") is None else {"value": pyint(c["value"])}
        return RunLength2dArray.from_intervals(arr(c["starts"], "int64"), arr(c["ends"], "int64"), c["row_len"], **kw)
    if p["variant"] == "ragged":
        if p.get("src_sel"):
            base = c["base_rows"]          # the ragged source is itself a pending selection of a larger array
            ra = RaggedArray(arr([x for r in base for x in r], "int64"), arr([len(r) for r in base], "int64"))
            ra = ra[{"rev": slice(None, None, -1), "from1": slice(1, None), "step2": slice(None, None, 2)}[p["src_sel"]]]
            return RunLengthRaggedArray.from_ragged_array(ra)
        ra = RaggedArray(arr([x for r in rows for x in r], "int64"), arr([len(r) for r in rows], "int64"))
        return RunLengthRaggedArray.from_ragged_array(ra)
    m = arr([x for r in rows for x in r], "int64").reshape(len(rows), len(rows[0]))
    if p["variant"] == "2d":
        return RunLength2dArray.from_array(m)
    return RunLengthRaggedArray.from_array(m)


def dec(x):
    """decode whatever an operation returned into plain arrays / ragged arrays"""
    from npstructures import RunLengthArray, RunLength2dArray, RunLengthRaggedArray, RaggedArray
    if isinstance(x, RunLengthRaggedArray):
        return x.to_array()
    if isinstance(x, RunLength2dArray):
        return x.to_array()
    if isinstance(x, RunLengthArray):
        return x.to_array()
    return x


def _presel(c, p):
    pre = p["pre"]
    if pre == "list":
        return list(c["pre_idx"])
    if pre == "mask":
        return arr(c["pre_mask"], "bool")
    return {"from1": slice(1, None), "rev": slice(None, None, -1), "step2": slice(None, None, 2), "last2": slice(-2, None)}[pre]


def _presel_rows(rows, c, p):
    pre = p["pre"]
    if pre == "list":
        return [rows[i] for i in c["pre_idx"]]
    if pre == "mask":
        return [r for r, m in zip(rows, c["pre_mask"]) if m]
    return rows[_presel(c, p)]


def run(c, p):
    op = p["op"]
    if op == "intervals":
        from npstructures import RunLength2dArray
        r = RunLength2dArray.from_intervals(arr(c["starts"], "int64"), arr(c["ends"], "int64"), c["row_len"])
        return dec(r)
    rl = build(c, p)
    if p.get("pre"):
        rl = rl[_presel(c, p)]          # a pending row selection: the operation below is its first use
    if op == "roundtrip":
        return dec(rl), len(rl)
    if op == "shape":
        sh = rl.shape
        return len(rl), sh[0], sh[1], rl.size
    if op == "rowint":
        return dec(rl[c["i"]])
    if op == "rowslice":
        return dec(rl[slice(c["a"], c["b"], c["s"])])
    if op == "rowlist":
        return dec(rl[list(c["idx"])])
    if op == "rowmask":
        return dec(rl[arr(c["mask"], "bool")])
    if op == "elem":
        return rl[c["i"], c["j"]]
    if op == "colint":
        return rl[:, c["j"]]
    if op == "colslice":
        return dec(rl[:, slice(c["a"], c["b"], c["s"])])
    if op == "rowcolslice":
        return dec(rl[slice(c["ra"], None), slice(c["a"], c["b"], c["s"])])
    if op in ("rowsum", "rowany", "rowall", "rowmax", "rowargmax"):
        f = {"rowsum": "sum", "rowany": "any", "rowall": "all", "rowmax": "max", "rowargmax": "argmax"}[op]
        return getattr(rl, f)(axis=-1)
    if op == "rowmean":
        return rl.mean(axis=-1)
    if op == "npmean":
        return np.mean(rl, axis=-1)
    if op == "npsum":
        return np.sum(rl, axis=-1)
    if op == "npmax":
        return np.max(rl, axis=-1)
    if op == "colsum":
        return dec(rl.sum(axis=0))
    if op == "colany":
        return dec(rl.any(axis=0))
    if op == "colcounts":
        return dec(rl.col_counts())
    if op == "ravel":
        return dec(rl.ravel())
    if op == "concat":
        rl2 = build(dict(rows=c["rows2"]), p)
        return dec(np.concatenate([rl, rl2]))
    if op == "neg":
        return dec(np.negative(rl))
    if op == "rs":
        return dec(rl - pyint(c["s"]))
    if op == "sr":
        return dec(pyint(c["s"]) - rl)
    if op == "rc":
        return dec(rl - arr(c["col"], "int64").reshape(-1, 1))
    if op == "cr":
        return dec(arr(c["col"], "int64").reshape(-1, 1) - rl)
    if op == "intervals":
        from npstructures import RunLength2dArray
        r = RunLength2dArray.from_intervals(arr(c["starts"], "int64"), arr(c["ends"], "int64"), c["row_len"])
        return dec(r)
    raise ValueError(op)


def reference(c, p):
    """the dense rows through plain list operations; returns something obs_any understands (lists -> arrays via _obs)"""
    op = p["op"]
    rows = c.get("rows")
    if p.get("pre"):
        rows = _presel_rows(rows, c, p)
    ragged = p["variant"] not in ("2d", "intervals")

    def R(rs):      # ragged / matrix observation
        if ragged:
            return common.ref_ragged(rs, "int64")
        ncol = len(rows[0])
        return common.ref_array([x for r in rs for x in r], [len(rs), len(rs[0]) if rs else ncol], "int64")

    def A(xs, dt="int64"):
        return common.ref_array(list(xs), [len(xs)], dt)
    if op == "roundtrip":
        return dict(k="tuple", items=[R(rows), common.obs_scalar(len(rows))])
    if op == "shape":
        lens = [len(r) for r in rows]
        if ragged:
            sh1 = A(lens, "*")
        else:
            sh1 = dict(k="scalar", val=lens[0], dtype="*")
        return dict(k="tuple", items=[common.obs_scalar(len(rows)), common.obs_scalar(len(rows)), sh1, dict(k="scalar", val=sum(lens), dtype="*")])
    if op == "rowint":
        return A(rows[c["i"]])
    if op in ("rowslice", "rowlist", "rowmask"):
        sel = rows[slice(c["a"], c["b"], c["s"])] if op == "rowslice" else [rows[i] for i in c["idx"]] if op == "rowlist" else [r for r, m in zip(rows, c["mask"]) if m]
        if not sel:
            return dict(k="any")       # zero rows selected: the decoded form of "no rows" carries no row structure to compare
        return R(sel)
    if op == "elem":
        return dict(k="scalar", val=rows[c["i"]][c["j"]], dtype="int64")
    if op == "colint":
        return A([r[c["j"]] for r in rows])
    if op == "colslice":
        return common.ref_ragged([r[slice(c["a"], c["b"], c["s"])] for r in rows], "int64")
    if op == "rowcolslice":
        return common.ref_ragged([r[slice(c["a"], c["b"], c["s"])] for r in rows[c["ra"]:]], "int64")
    if op in ("rowsum", "npsum"):
        return A([zsum(r) for r in rows], "*")
    if op in ("rowmean", "npmean"):
        out = []
        for r in rows:
            sm = zsum(r)
            if _sym(sm):
                import z3
                out.append(z3.Function("uf_idiv_f64", z3.IntSort(), z3.IntSort(), z3.BitVecSort(64))(sm, z3.IntVal(len(r))))
            else:
                out.append(common.cells(np.array([np.mean(np.array(r, dtype="int64"))]))[0])
        return A(out, "float64")
    if op == "rowany":
        return A([zany(r) for r in rows], "*")
    if op == "rowall":
        return A([zall(r) for r in rows], "*")
    if op in ("rowmax", "npmax"):
        out = []
        for r in rows:
            m = r[0]
            for x in r[1:]:
                m = zmax2(m, x)
            out.append(m)
        return A(out, "*")
    if op == "rowargmax":
        return A([zargmax(r) for r in rows], "*")
    if op == "colsum":
        L = max(len(r) for r in rows)
        return A([zsum([r[j] for r in rows if len(r) > j]) for j in range(L)], "*")
    if op == "colany":
        L = max(len(r) for r in rows)
        return A([zany([r[j] for r in rows if len(r) > j]) for j in range(L)], "*")
    if op == "colcounts":
        L = max(len(r) for r in rows)
        return A([sum(1 for r in rows if len(r) > j) for j in range(L)], "*")
    if op == "ravel":
        return A([x for r in rows for x in r])
    if op == "concat":
        return R(rows + c["rows2"])
    if op == "neg":
        return R([[0 - x for x in r] for r in rows])
    if op == "rs":
        return R([[x - c["s"] for x in r] for r in rows])
    if op == "sr":
        return R([[c["s"] - x for x in r] for r in rows])
    if op == "rc":
        return R([[x - v for x in r] for r, v in zip(rows, c["col"])])
    if op == "cr":
        return R([[v - x for x in r] for r, v in zip(rows, c["col"])])
    if op == "intervals":
        n = c["row_len"]
        return common.ref_array([1 if s <= j < e else 0 for s, e in zip(c["starts"], c["ends"]) for j in range(n)], [len(c["starts"]), n], "*")
    raise ValueError(op)


def gen(E, p):
    import z3
    op, variant = p["op"], p["variant"]
    c = {}
    if op == "intervals":
        k = E.concretize(E.int("k", 1, p["R"]))
        n = E.concretize(E.int("row_len", 1, p["L"] + 1))
        c["row_len"] = n
        c["starts"] = [E.concretize(E.int(f"s{i}", 0, n - 1)) for i in range(k)]
        c["ends"] = [E.concretize(E.int(f"e{i}", 1, n)) for i in range(k)]
        for s, e in zip(c["starts"], c["ends"]):
            if s >= e:
                raise __import__("symx.engine", fromlist=["x"]).PathPruned()
        return c

    def mkrows(tag, R=None):
        if variant == "intervals":
            k = E.concretize(E.int(tag + "k", p.get("Rfix", 1), p.get("Rfix", p["R"])))
            n = c["row_len"] if tag else E.concretize(E.int("row_len", 1, p["L"] + 1))
            starts = [E.concretize(E.int(f"{tag}s{i}", 0, n - 1)) for i in range(k)]
            ends = [E.concretize(E.int(f"{tag}e{i}", 1, n)) for i in range(k)]
            if any(s_ >= e_ for s_, e_ in zip(starts, ends)):
                raise __import__("symx.engine", fromlist=["x"]).PathPruned()
            val = E.int("value", -3, 3) if p.get("value") else None
            if val is not None:
                E.assume(val != 0)
            if not tag:
                c.update(row_len=n, starts=starts, ends=ends, value=val)
            v = 1 if val is None else val
            return [[v if s_ <= j < e_ else 0 for j in range(n)] for s_, e_ in zip(starts, ends)]
        R = E.concretize(E.int(tag + "R", p.get("Rfix", 1), p.get("Rfix", p["R"]))) if R is None else R
        if variant == "ragged":
            lens = [E.concretize(E.int(f"{tag}l{r}", p["l0"] if (r == 0 and p.get("l0") and not tag) else 1,
                                       p["l0"] if (r == 0 and p.get("l0") and not tag) else p["L"])) for r in range(R)]
        else:
            ncol = E.concretize(E.int(tag + "C", 1, p["L"]))
            lens = [ncol] * R
        rows = [[E.int(f"{tag}d{r}_{k}", 0, VMAX) for k in range(n)] for r, n in enumerate(lens)]
        for r in rows:                                   # fork the run layout
            for k in range(len(r) - 1):
                E.branch(r[k] == r[k + 1])
        return rows
    rows = c["rows"] = mkrows("")
    if p.get("src_sel"):
        c["base_rows"] = rows
        rows = c["rows"] = rows[{"rev": slice(None, None, -1), "from1": slice(1, None), "step2": slice(None, None, 2)}[p["src_sel"]]]
        if not rows:
            raise __import__("symx.engine", fromlist=["x"]).PathPruned()
    if p.get("pre"):
        R0 = len(rows)
        if p["pre"] == "list":
            k = E.concretize(E.int("pk", 1, 2))
            c["pre_idx"] = [E.concretize(E.int(f"pi{j}", -R0, R0 - 1)) for j in range(k)]
        if p["pre"] == "mask":
            c["pre_mask"] = [E.concretize(E.int(f"pm{i}", 0, 1)) == 1 for i in range(R0)]
        rows = _presel_rows(rows, c, p)
        if not rows:
            raise __import__("symx.engine", fromlist=["x"]).PathPruned()
    R = len(rows)
    minlen = min(len(r) for r in rows)
    if op in ("rowint", "elem"):
        c["i"] = E.concretize(E.int("i", -R, R - 1))
    if op == "elem":
        n = len(rows[c["i"]])
        c["j"] = E.concretize(E.int("j", -n, n - 1))
    if op == "rowslice":
        pres = E.choose("pres", [(0, 0), (1, 0), (0, 1), (1, 1)])
        c["a"] = E.concretize(E.int("a", -R - 1, R + 1)) if pres[0] else None
        c["b"] = E.concretize(E.int("b", -R - 1, R + 1)) if pres[1] else None
        c["s"] = p.get("s")
    if op == "rowlist":
        k = E.concretize(E.int("k", 1, 2))
        c["idx"] = [E.concretize(E.int(f"i{j}", -R, R - 1)) for j in range(k)]
    if op == "rowmask":
        c["mask"] = [E.concretize(E.int(f"m{i}", 0, 1)) == 1 for i in range(R)]
    if op == "colint":
        c["j"] = E.concretize(E.int("j", -minlen, minlen - 1))
    if op in ("colslice", "rowcolslice"):
        s = p["s"]
        pres = E.choose("pres", [tuple(x) for x in p["pres"]] if p.get("pres") else [(0, 0), (1, 0), (0, 1), (1, 1)])
        L = p["L"]
        c["a"] = E.concretize(E.int("a", -L, L)) if pres[0] else None
        c["b"] = E.concretize(E.int("b", -L, L + 1)) if pres[1] else None
        c["s"] = s
        if op == "rowcolslice":
            c["ra"] = E.concretize(E.int("ra", 0, R - 1))
        # the property's stated precondition: the column range is non-empty in every selected row;
        # negative-step slices with bounds inside the rows
        sel = rows[c.get("ra", 0):] if op == "rowcolslice" else rows
        for r in sel:
            if len(r[slice(c["a"], c["b"], s)]) == 0:
                raise __import__("symx.engine", fromlist=["x"]).PathPruned()
            if s is not None and s < 0:
                for t in (c["a"], c["b"]):
                    if t is not None and not (0 <= t < len(r)):
                        raise __import__("symx.engine", fromlist=["x"]).PathPruned()
    if op == "concat":
        c["rows2"] = mkrows("y")
        if variant == "2d" and len(c["rows2"][0]) != len(rows[0]):
            raise __import__("symx.engine", fromlist=["x"]).PathPruned()
    if op in ("rs", "sr"):
        c["s"] = E.int("s", -5, 5)
    if op in ("rc", "cr"):
        c["col"] = [E.int(f"c{r}", -5, 5) for r in range(R)]
    return c


def sym(E, p, kf):
    from symx import specs
    c = gen(E, p)
    if "KF-C17-1" in kf and p["op"] in ("sr", "cr"):
        raise __import__("symx.engine", fromlist=["x"]).PathPruned()
    got = outcome(lambda: run(c, p))
    exp = reference(c, p)
    return dict(goal=specs.obs_goal(got, exp) if got["k"] != "raise" else False, got=got, case=dict(p=p, c=c))


def kf_match(case):
    return ["KF-C17-1"] if case["p"]["op"] in ("sr", "cr") else []


def conc(case):
    p, c = case["p"], case["c"]
    got = outcome(lambda: run(c, p))
    return got, reference(c, p), {"dtype_matters": False, "float_eq": True}


def jobs(tier, seed):
    q = tier == "quick"
    out = []
    base = dict(R=2 if q else 3, L=3)          # (three rows of up to four cells: 1.2 million paths, six jobs beyond their hour -- thorough adds the third row only)
    common_ops = ["roundtrip", "shape", "rowint", "rowlist", "rowmask", "elem", "rowsum", "rowany", "rowall", "ravel", "concat", "neg", "rs", "sr", "rc", "cr", "colsum"]
    for variant in ("ragged", "2d"):
        for op in common_ops:
            if variant == "2d" and op in ("ravel", "concat"):
                continue
            out.append(dict(base, variant=variant, op=op) if op != "concat" else dict(base, variant=variant, op=op, L=2))
        for s in (None, -1, 2):
            out.append(dict(base, variant=variant, op="rowslice", s=s))
    for op in ("colint", "rowmax", "rowargmax", "npsum", "npmax", "colcounts", "rowmean", "npmean"):
        out.append(dict(base, variant="ragged", op=op))
    for s in (None, 1, 2, -1, -2) + (() if q else (3, -3)):
        for pres in ([[0, 0], [1, 0]], [[0, 1]], [[1, 1]]):
            # sharded by the number of rows and the first row's length (the deepest call stack of the repository)
            out.append(dict(base, variant="ragged", op="colslice", s=s, pres=pres, Rfix=1))
            if q:
                # quick: one row up to length 3 (stride arithmetic), two rows up to length 2 (row interaction)
                out.append(dict(base, variant="ragged", op="colslice", s=s, pres=pres, Rfix=2, L=2))
            else:
                for l0 in range(1, base["L"] + 1):
                    out.append(dict(base, variant="ragged", op="colslice", s=s, pres=pres, Rfix=2, l0=l0))
                out.append(dict(base, variant="ragged", op="colslice", s=s, pres=pres, Rfix=3, L=2))
    if q:
        out.append(dict(base, variant="ragged", op="rowcolslice", s=None, pres=[[1, 0], [0, 1]], Rfix=2, L=2))
    else:
        for l0 in range(1, base["L"] + 1):
            out.append(dict(base, variant="ragged", op="rowcolslice", s=None, pres=[[1, 0], [0, 1]], Rfix=2, l0=l0))
    out.append(dict(base, variant="2d", op="colany"))
    out.append(dict(base, variant="2d", op="intervals"))
    out.append(dict(base, variant="ragged_from_matrix", op="roundtrip"))
    for sel in ("rev", "from1", "step2"):
        for op in ("roundtrip", "shape", "rowsum", "colsum"):
            out.append(dict(base, variant="ragged", op=op, src_sel=sel, R=3, L=2))
    # interval tables (runs that reach the right edge, several cells long; any run value) under the same operations
    for op in ("roundtrip", "shape", "rowint", "rowsum", "rowany", "rowall", "colsum", "colany", "rowlist", "rowmask", "neg", "rs", "sr", "npsum"):
        out.append(dict(base, variant="intervals", op=op, value=op in ("rowsum", "colsum", "roundtrip", "npsum", "rs"), L=3))
    # the first use of a pending row selection is a reduction / a column aggregate
    for pre in ("from1", "rev", "step2", "list", "mask"):
        for variant in ("ragged", "2d", "intervals"):
            for op in ("colsum", "rowsum", "colcounts", "rowmax", "ravel", "colany", "rowmean"):
                if (variant != "ragged" and op in ("colcounts", "rowmax", "ravel", "rowmean")) or (variant == "ragged" and op == "colany"):
                    continue
                if q and pre in ("step2", "mask") and op not in ("colsum", "rowsum"):
                    continue
                small = variant == "intervals" and pre in ("list", "mask")
                out.append(dict(base, variant=variant, op=op, pre=pre, R=2 if small else 3, L=2 if (q or small) else 3))
    return [dict(h="C17.rl2d", p=p) for p in out]


harness("C17.rl2d", jobs, sym, conc)
