"""C02 -- indexing reads exactly the addressed cells, or refuses.

Symbolic: row lengths, cell values, every slice bound / index-list entry / mask bit / integer index.
Forked (concrete per path): R, total size S, which slice bounds are present, steps (job parameter),
mask popcount, and whatever the code under test itself asks a concrete value for.
Oracle 1 (z3): ragged_ix.z3_getitem_goal -- python list-of-rows indexing written out with If.
Oracle 2 (replay): ragged_ix.ref_getitem on plain lists.
"""
import numpy as np
from . import common, ragged_ix
from .common import harness, outcome, mk_ragged

DV = 1000   # cell values are cargo here; range only keeps models readable


H, B0 = 1 << 40, 2


def gen_bounds(E, tag, spec, B):
    import z3
    if spec.get("huge"):
        B = H + B0
    """spec: dict(s=step or None[, pres=[...]]); which of start/stop are present is forked here"""
    pres = E.choose(tag + "_pres", spec.get("pres") or [(0, 0), (1, 0), (0, 1), (1, 1)])
    a = E.int(tag + "_a", -B, B) if pres[0] else None
    b = E.int(tag + "_b", -B, B) if pres[1] else None
    if spec.get("huge"):
        # bounds far beyond the rows (they clamp, as for python lists): small offsets around 0 and around +-2^40
        for v in (a, b):
            if v is not None:
                E.assume(z3.Or(z3.And(v >= -B0, v <= B0), z3.And(v >= H - B0, v <= H + B0), z3.And(v >= -H - B0, v <= -H + B0)))
    return {"t": "slice", "a": a, "b": b, "s": spec.get("s")}


def gen_rowsel(E, p, R, B):
    rk = p["rk"]
    if rk in ("all", "ellipsis"):
        return {"t": rk}
    if rk == "int":
        return {"t": "int", "i": E.int("ri", -B, B), "np": bool(p.get("npint"))}
    if rk == "slice":
        return gen_bounds(E, "rs", {"s": p.get("rstep"), "pres": p.get("rpres"), "huge": p.get("huge")}, p.get("RB", B))
    if rk in ("list", "array"):
        return {"t": rk, "v": [E.int(f"rv{k}", -B, B) for k in range(p["k"])]}
    if rk == "mask":
        return {"t": "mask", "v": [E.bool(f"m{i}") for i in range(R)]}
    raise ValueError(rk)


def gen_colsel(E, p, B):
    ck = p["ck"]
    if ck == "none":
        return {"t": "none"}
    if ck == "int":
        return {"t": "int", "j": E.int("cj", -B, B), "np": bool(p.get("npint"))}
    return gen_bounds(E, "cs", {"s": p.get("cstep"), "pres": p.get("cpres"), "huge": p.get("huge")}, B)


def gen_ragged(E, p, min_rows=0, dtype="int64"):
    import z3
    R = E.concretize(E.int("R", min_rows, p["R"]))
    lens = [E.int(f"l{r}", 0, p["L"]) for r in range(R)]
    S = E.concretize(z3.Sum(lens) if lens else z3.IntVal(0))
    data = [E.int(f"d{q}", -DV, DV) for q in range(S)]
    return R, lens, S, data


def kf_carve(E, kf, lens, rs, cs):
    """carve-outs for OPEN known findings (only active while the finding's witness still fails)"""
    import z3
    if "KF-C02-2" in kf and cs["t"] == "slice" and (cs.get("s") or 1) < 0:
        # negative-step column slice over a selection containing an empty row
        E.assume(z3.And(*[l > 0 for l in lens]) if lens else True)
    if "KF-C02-1" in kf and cs["t"] == "int":
        # negative column integer below -len(row) for some row
        E.assume(z3.And(*[cs["j"] >= -l for l in lens]) if lens else True)


def sym(E, p, kf):
    from npstructures import RaggedArray
    R, lens, S, data = gen_ragged(E, p)
    B = p["B"]
    rs = gen_rowsel(E, p, R, B)
    cs = gen_colsel(E, p, B)
    kf_carve(E, kf, lens, rs, cs)
    ra = mk_ragged(RaggedArray, data, lens)
    got = outcome(lambda: ra[ragged_ix.build_index(rs, cs)])
    goal = ragged_ix.z3_getitem_goal(E, lens, data, rs, cs, got)
    return dict(goal=goal, got=got, case=dict(lens=lens, data=data, rs=rs, cs=cs))


def conc(case):
    from npstructures import RaggedArray
    rows = common.rows_of(case["data"], case["lens"])
    ra = mk_ragged(RaggedArray, case["data"], case["lens"])
    got = outcome(lambda: ra[ragged_ix.build_index(case["rs"], case["cs"])])
    exp = ragged_ix.ref_getitem(rows, case["rs"], case["cs"], "int64")
    return got, exp


def kf_match(case):
    if "cs" not in case:
        return []
    """which known-finding predicate (if any) the concrete case falls under"""
    out = []
    cs, lens = case["cs"], case["lens"]
    try:
        sel = ragged_ix.ref_select_rows(len(lens), case["rs"])
    except ragged_ix.Refuse:
        return out
    if cs["t"] == "slice" and (cs.get("s") or 1) < 0 and any(lens[r] == 0 for r in sel):
        out.append("KF-C02-2")
    if cs["t"] == "int" and any(cs["j"] < -lens[r] for r in sel):
        out.append("KF-C02-1")
    return out


def jobs(tier, seed):
    q = tier == "quick"
    base = dict(R=3, L=3, B=4 if q else 5)          # thorough widens bounds, steps and selector kinds; a fourth row is added by dedicated jobs only
    steps = [None, 1, 2, -1, -2] + ([] if q else [3, -3])
    out = []
    rowkinds = [dict(rk="all"), dict(rk="ellipsis"), dict(rk="int"), dict(rk="mask"),
                dict(rk="list", k=1), dict(rk="list", k=2), dict(rk="array", k=2)]
    if not q:
        rowkinds.append(dict(rk="list", k=3))
    else:
        out.append(dict(base, ck="none", rk="list", k=3, L=2))       # permutations / repeats of three rows (materialisation of a row-list selection)
    out.append(dict(base, ck="none", rk="list", k=4, R=4, L=2, B=4))      # four rows, four entries
    for s_ in (None, -1, 2):
        out.append(dict(base, ck="slice", cstep=s_, rk="all", huge=True, R=2, L=2))          # slice bounds around +-2^40
        out.append(dict(base, ck="none", rk="slice", rstep=s_, huge=True, R=2, L=2))
    out.append(dict(base, ck="slice", cstep=None, cpres=[(1, 0)], rk="array", k=4, R=4, L=1, B=4))
    # integer indices given as numpy integer scalars
    for rk_, ck_ in (("int", "none"), ("int", "int"), ("int", "slice"), ("all", "int"), ("mask", "int"), ("ellipsis", "int")):
        out.append(dict(base, rk=rk_, ck=ck_, cstep=None, npint=True, R=2))
    out.append(dict(dict(base, ck="int", npint=True), rk="slice", rstep=None, rpres=[(1, 0)], RB=3, R=2))
    # rows only: every presence pattern of the slice bounds
    for rk in rowkinds + [dict(rk="slice", rstep=s) for s in steps]:
        out.append(dict(base, ck="none", **rk))
    # in combination with a column selector the row slice is a one-bound slice (a: or :b), bounds +-3
    combo = [dict(rk="slice", rstep=None, rpres=[(1, 0), (0, 1)], RB=3, R=2), dict(rk="slice", rstep=-1, rpres=[(1, 0)], RB=3, R=2),
             dict(rk="slice", rstep=2, rpres=[(1, 0)], RB=3, R=2)]
    if not q:
        combo = [dict(rk="slice", rstep=s, RB=4) for s in (None, -1, 2, -2)]
    for rk in rowkinds + combo:
        out.append(dict(base, ck="int", **rk) if "R" not in rk else dict(dict(base, ck="int"), **rk))
    for s in steps:
        for rk in rowkinds + combo:
            if q and rk.get("rk") in ("array",):
                continue
            out.append(dict(dict(base, ck="slice", cstep=s), **rk))
    return [dict(h="C02.index", p=p) for p in out]


harness("C02.index", jobs, sym, conc, "ra[rows(, cols)] for the whole selector grid")


# ------------------------------------------------------------------ the same index forms applied to a lazily selected array
def _view_ops():
    from . import programs
    return {k: (lambda d, P, k=k: programs.probe(d, k, P)) for k in ("elem", "rowint", "colint", "rowcolint", "colslice", "rowslice", "rowlist", "colrev", "ellipsis")}


def sym_onview(E, p, kf):
    import z3
    from symx import specs
    from . import programs
    from npstructures import RaggedArray
    R = E.concretize(E.int("R", 0, p["R"]))
    lens = [E.concretize(E.int(f"l{r}", 0, p["L"])) for r in range(R)]      # shapes forked: the selected rows are computed on plain lists
    S = sum(lens)
    data = [E.int(f"d{q}", -DV, DV) for q in range(S)]
    P = programs.ParamStore(E, B=2)
    case = dict(p=p, lens=lens, data=data, params=P.values)
    conc_ = lambda t: (E.branch(t) if z3.is_bool(t) else E.concretize(t)) if z3.is_expr(t) else t
    op = _view_ops()[p["op"]]
    od, of, oa = programs.on_view(RaggedArray, lens, data, "int64", p["pre"], lambda d: op(d, P), P, conc=conc_)
    if od["k"] != of["k"]:
        return dict(goal=False, got=od, case=case)
    goal = specs.conj([specs.obs_goal(od, of) if od["k"] != "raise" else True, specs.obs_goal(oa, dict(k="ragged", flat=data, lens=lens, dtype="int64"))])
    return dict(goal=goal, got=od, case=case)


def conc_onview(case):
    from . import programs
    from npstructures import RaggedArray
    p = case["p"]
    P = programs.ParamStore(None, dict(case["params"]), B=2)
    op = _view_ops()[p["op"]]
    od, of, oa = programs.on_view(RaggedArray, case["lens"], case["data"], "int64", p["pre"], lambda d: op(d, P), P)
    if od["k"] == "raise" and of["k"] == "raise":
        of = common.refused()
    return od, of


def jobs_onview(tier, seed):
    from . import programs
    q = tier == "quick"
    out = []
    for op in _view_ops():
        for pre in programs.VIEW_STEPS:
            if pre == "rowlist3":
                heavy = op in ("elem", "rowcolint", "rowlist", "colslice")      # two more symbolic positions on top of the three of the list
                out.append(dict(R=2 if heavy else 3, L=1 if (q or heavy) else 2, pre=pre, op=op))
                continue
            if q and pre in ("colstepm2", "colslice_a") and op not in ("elem", "colint", "colslice"):
                continue
            out.append(dict(R=3 if not q or op in ("elem", "rowlist") else 2, L=2 if q else 3, pre=pre, op=op))
    return [dict(h="C02.onview", p=p) for p in out]


harness("C02.onview", jobs_onview, sym_onview, conc_onview)


# ------------------------------------------------------------------ element-wise pairs ra[rows_array, cols_array]
def _pairs_run(RaggedArray, lens, data, rows, cols):
    ra = mk_ragged(RaggedArray, data, lens)
    ri, ci = common.arr(rows, "int64"), common.arr(cols, "int64")
    res = ra[ri, ci]
    return res, ri, ci, ra          # the index arrays belong to the caller: observed afterwards


def sym_pairs(E, p, kf):
    import z3
    from symx import specs
    from npstructures import RaggedArray
    R = E.concretize(E.int("R", 1, p["R"]))
    lens = [E.int(f"l{r}", 0, p["L"]) for r in range(R)]
    S = E.concretize(z3.Sum(lens))
    data = [E.int(f"d{q}", -DV, DV) for q in range(S)]
    k = E.concretize(E.int("k", 1, p["k"]))
    np.EXACT32[0] = bool(p.get("huge")) and common.SYMBOLIC
    B = p["B"] if not p.get("huge") else (1 << 32) + B0
    rows = [E.int(f"pr{j}", -B, B) for j in range(k)]
    cols = [E.int(f"pc{j}", -B, B) for j in range(k)]
    if p.get("huge"):
        for v in rows + cols:
            E.assume(z3.Or(z3.And(v >= -B0 - 1, v <= B0 + 1), z3.And(v >= (1 << 32) - B0, v <= (1 << 32) + B0), z3.And(v >= -(1 << 32) - B0, v <= -(1 << 32) + B0)))
    got = outcome(lambda: _pairs_run(RaggedArray, lens, data, rows, cols))
    case = dict(p=p, lens=lens, data=data, rows=rows, cols=cols)
    starts, _ = specs.prefix_starts(lens)
    D = specs.store_of(data)
    oks, vals = [], []
    for r, c in zip(rows, cols):
        rr = z3.If(r < 0, r + R, r)
        ok_r = z3.And(rr >= 0, rr < R)
        ln = specs.select_chain(lens, z3.If(ok_r, rr, 0))
        cc = z3.If(c < 0, c + ln, c)
        oks.append(z3.And(ok_r, cc >= 0, cc < ln))
        vals.append(z3.Select(D, specs.select_chain(starts, z3.If(ok_r, rr, 0)) + cc))
    allok = z3.And(*oks)
    if got["k"] == "raise":
        return dict(goal=z3.Not(allok), got=got, case=case)
    want = dict(k="tuple", items=[dict(k="array", flat=vals, shape=[k], dtype="int64"), dict(k="array", flat=rows, shape=[k], dtype="int64"),
                                  dict(k="array", flat=cols, shape=[k], dtype="int64"), dict(k="ragged", flat=data, lens=lens, dtype="int64")])
    return dict(goal=specs.conj([allok, specs.obs_goal(got, want)]), got=got, case=case)


def conc_pairs(case):
    from npstructures import RaggedArray
    lens, data, rows, cols = case["lens"], case["data"], case["rows"], case["cols"]
    got = outcome(lambda: _pairs_run(RaggedArray, lens, data, rows, cols))
    rws = common.rows_of(data, lens)
    try:
        vals = []
        for r, c in zip(rows, cols):
            if not -len(rws) <= r < len(rws) or not -len(rws[r]) <= c < len(rws[r]):
                raise IndexError
            vals.append(rws[r][c])
    except IndexError:
        return got, common.refused()
    A = common.ref_array
    return got, dict(k="tuple", items=[A(vals, [len(vals)], "int64"), A(list(rows), [len(rows)], "int64"), A(list(cols), [len(cols)], "int64"), common.ref_ragged(rws, "int64")])


def jobs_pairs(tier, seed):
    q = tier == "quick"
    return [dict(h="C02.pairs", p=dict(R=2 if q else 3, L=2 if q else 3, k=2, B=3)), dict(h="C02.pairs", p=dict(R=2, L=2, k=1, B=3, huge=True))]


harness("C02.pairs", jobs_pairs, sym_pairs, conc_pairs)
