"""Straight-line programs over the RaggedArray API with symbolic parameters (used by C06, C10, C19).

A program is a list of step kinds; each step draws its parameters from a ParamStore: on the symbolic side the store creates
solver variables (and records them for the replay case), on the replay side it reads the recorded concrete values.
"""
import numpy as np
from . import common
from .common import pyint, arr, obs_ragged, obs_array, obs_any


class ParamStore:
    def __init__(self, E=None, values=None, B=2):
        self.E = E
        self.values = {} if values is None else values
        self.B = B

    def int(self, key, lo, hi):
        if key not in self.values:
            if self.E is None:
                raise KeyError(key)
            self.values[key] = self.E.int("p_" + key, lo, hi)
        return self.values[key]

    def bvs(self, key, n, bits):
        if key not in self.values:
            if self.E is None:
                raise KeyError(key)
            self.values[key] = [self.E.bv(f"p_{key}{i}", bits) for i in range(n)]
        return self.values[key]

    def bools(self, key, n):
        if key not in self.values:
            if self.E is None:
                raise KeyError(key)
            self.values[key] = [self.E.bool(f"p_{key}{i}") for i in range(n)]
        return self.values[key]


STEPS = ["rowslice_a", "rowslice_b", "rowrev", "rowstep2", "rowlist", "mask", "colslice_a", "colslice_b", "colrev", "colstep2", "colstepm2",
         "addone", "neg", "concat", "sort", "cumsum", "diff", "where", "ellipsis"]


def step(x, kind, P, k):
    n = len(x)
    B = P.B
    if kind == "rowslice_a":
        return x[pyint(P.int(f"{k}a", -B, B)):]
    if kind == "rowslice_b":
        return x[:pyint(P.int(f"{k}b", -B, B))]
    if kind == "rowrev":
        return x[::-1]
    if kind == "rowstep2":
        return x[::2]
    if kind == "rowlist":
        if n == 0:
            return x[[]]
        return x[[pyint(P.int(f"{k}i", -n, n - 1)), pyint(P.int(f"{k}j", -n, n - 1))]]
    if kind == "mask":
        return x[arr(P.bools(f"{k}m", n), "bool")]
    if kind == "colslice_a":
        return x[:, pyint(P.int(f"{k}a", -B, B)):]
    if kind == "colslice_b":
        return x[:, :pyint(P.int(f"{k}b", -B, B))]
    if kind == "colslice_ab":
        return x[:, pyint(P.int(f"{k}a", -B, B)):pyint(P.int(f"{k}b", -B, B))]
    if kind == "colrev":
        return x[:, ::-1]
    if kind == "colstep2":
        return x[:, ::2]
    if kind == "colstepm2":
        return x[:, ::-2]
    if kind == "addone":
        return x + 1
    if kind == "neg":
        return -x
    if kind == "concat":
        return np.concatenate([x, x])
    if kind == "concat1":
        return np.concatenate([x])          # one operand: still a new array
    if kind == "sort":
        return x.sort()
    if kind == "cumsum":
        return np.cumsum(x, axis=-1)
    if kind == "diff":
        return np.diff(x, axis=-1)
    if kind == "where":
        return np.where(x > 0, x, 0)
    if kind == "ellipsis":
        return x[...]
    raise ValueError(kind)


READ_PROBES = ["size_rowsum", "size_colsum", "size_cumsum", "repr_rowsum", "nonzero_m", "rowlist", "ellipsis", "emptytuple", "read", "shape", "rowint", "elem", "rowslice", "colslice", "colrev", "ufunc", "rowsum", "iter", "tolist", "nonzero",
               "colint", "rowcolint", "maskidx", "colvals", "colsum", "colcounts", "padded", "padded_left", "unique", "cumsum", "concat", "where", "rslice", "any", "max"]
WRITE_PROBES = ["set_row", "set_col", "set_all"]


def probe(d, kind, P):
    """apply a probe to d; returns something obs_any understands (for write probes: d itself after the write)"""
    n = len(d)
    B = P.B
    if kind in ("padded", "padded_left", "colsum", "colcounts", "max"):
        if d.size == 0 or (kind == "max" and len(d) and int(np.min(d.lengths)) == 0):
            return ("precondition not met",)        # these need a non-empty row (C08/C09) / non-empty rows (C05 max)
    if kind == "read":
        return d
    if kind == "ellipsis":
        return d[...]
    if kind == "emptytuple":
        return d[()]
    if kind == "fcol":
        # a float column broadcast over the rows (an uninterpreted binary ufunc on the symbolic side, np.add at replay); float16 cells are exact IEEE
        if n == 0:
            return ("precondition not met",)
        from . import common as _c
        col = _c.farr(P.bvs("fc", n, 16), "float16").reshape(-1, 1)
        return (np.uf_f if _c.SYMBOLIC else np.add)(d.astype("float16"), col)
    if kind == "shape":
        return (len(d), d.shape[1], d.size)
    if kind == "rowint":
        return d[pyint(P.int("qi", -B - 1, B + 1))]
    if kind == "elem":
        return d[pyint(P.int("qi", -B - 1, B + 1)), pyint(P.int("qj", -B - 1, B + 1))]
    if kind == "rowslice":
        return d[pyint(P.int("qa", -B, B)):]
    if kind == "colslice":
        return d[:, pyint(P.int("qa", -B, B)):pyint(P.int("qb", -B, B))]
    if kind == "colrev":
        return d[:, ::-1]
    if kind == "ufunc":
        return d + d
    if kind == "rowsum":
        return d.sum(axis=-1)
    if kind == "iter":
        return tuple(r for r in d)
    if kind == "tolist":
        return tuple(tuple(common.pyval(c) for c in r) for r in d.tolist())
    if kind == "nonzero":
        return np.nonzero(d)
    if kind == "nonzero_m":
        return d.nonzero()
    if kind in ("size_rowsum", "size_colsum", "size_cumsum", "repr_rowsum"):
        # two reads in a row: what the first one leaves behind (a cached size, a materialised buffer) must not change the second
        first = d.size if kind.startswith("size") else repr(d)
        if kind == "size_colsum" and d.size == 0:
            return ("precondition not met",)
        second = d.sum(axis=-1) if kind.endswith("rowsum") else d.sum(axis=0) if kind.endswith("colsum") else np.cumsum(d, axis=-1)
        return (first if kind.startswith("size") else 0, second, d)
    if kind == "rowlist":
        if n == 0:
            return ("precondition not met",)
        return d[[pyint(P.int("qi", -n, n - 1)), pyint(P.int("qk", -n, n - 1))]]
    if kind == "colint":
        return d[:, pyint(P.int("qj", -B - 1, B + 1))]
    if kind == "rowcolint":
        return d[pyint(P.int("qa", -B, B)):, pyint(P.int("qj", -B - 1, B + 1))]
    if kind == "maskidx":
        from npstructures import RaggedArray
        d2 = d[...] if False else d
        lens = d.shape[1]
        bits = P.bools("qm", int(d.size))
        return d[RaggedArray(arr(bits, "bool"), lens)]
    if kind == "colvals":
        return d.get_column_values(pyint(P.int("qj", 0, B)))
    if kind == "colsum":
        return d.sum(axis=0)
    if kind == "colcounts":
        return d.col_counts()
    if kind == "padded":
        return d.as_padded_matrix(fill_value=-7, side="right")
    if kind == "padded_left":
        return d.as_padded_matrix(fill_value=-7, side="left")
    if kind == "unique":
        return np.unique(d, axis=-1)
    if kind == "cumsum":
        return np.cumsum(d, axis=-1)
    if kind == "concat":
        return np.concatenate([d, d])
    if kind == "where":
        return np.where(d > 0, d, 0)
    if kind == "rslice":
        from npstructures import ragged_slice
        return ragged_slice(d, None, np.full(len(d), 1))
    if kind == "any":
        return (d != 0).any(axis=-1)
    if kind == "max":
        return d.max(axis=-1)
    if kind == "set_row":
        d[pyint(P.int("qi", -B - 1, B + 1))] = pyint(P.int("qv", -50, 50))
        return d
    if kind == "set_col":
        d[:, pyint(P.int("qa", -B, B)):] = pyint(P.int("qv", -50, 50))
        return d
    if kind == "set_all":
        d[...] = pyint(P.int("qv", -50, 50))
        return d
    raise ValueError(kind)


def derive(a, steps, P):
    x = a
    for k, s in enumerate(steps):
        x = step(x, s, P, f"s{k}")
    return x


# ------------------------------------------------------------------ an operation applied to a lazily selected operand (relational)
VIEW_STEPS = ["rowrev", "rowlist3", "mask", "rowslice_a", "colrev", "colstep2", "colstepm2", "colslice_a"]


def view_step(x, kind, P, k="v0"):
    if kind == "rowlist3":
        n = len(x)
        if n == 0:
            return x[[]]
        return x[[pyint(P.int(f"{k}i", -n, n - 1)), pyint(P.int(f"{k}j", -n, n - 1)), pyint(P.int(f"{k}k", -n, n - 1))]]
    return step(x, kind, P, k)


def ref_view_rows(rows, kind, P, k="v0", conc=int):
    """the rows a view step selects, by plain list operations; rows have concrete lengths, parameters are made concrete with `conc`"""
    n, B = len(rows), P.B
    if kind == "rowrev":
        return rows[::-1]
    if kind == "rowlist3":
        if n == 0:
            return []
        return [rows[conc(P.int(f"{k}{t}", -n, n - 1))] for t in "ijk"]
    if kind == "rowlist":
        if n == 0:
            return []
        return [rows[conc(P.int(f"{k}{t}", -n, n - 1))] for t in "ij"]
    if kind == "mask":
        m = P.bools(f"{k}m", n)
        return [r for r, b in zip(rows, m) if conc(b)]
    if kind == "rowslice_a":
        return rows[conc(P.int(f"{k}a", -B, B)):]
    if kind == "colslice_a":
        a = conc(P.int(f"{k}a", -B, B))
        return [r[a:] for r in rows]
    sl = {"colrev": slice(None, None, -1), "colstep2": slice(None, None, 2), "colstepm2": slice(None, None, -2)}[kind]
    return [r[sl] for r in rows]


def on_view(RaggedArray, lens, data, dtype, pre, op_fn, P, conc=int, preread=None):
    """op_fn applied to d = pre(a) and to a freshly built array holding the rows pre selects (computed on plain lists; `lens` is concrete);
    returns (obs of op(d), obs of op(fresh), a after)"""
    from .common import mk_ragged, obs_ragged, outcome, typed, rows_of
    a = mk_ragged(RaggedArray, data, lens, dtype)
    if preread is not None:
        preread(a)          # the source is looked at before the selection is taken (whatever that caches must not reach the selection)
    d = view_step(a, pre, P)
    rows = ref_view_rows(rows_of(list(data), [int(l) for l in lens]), pre, P, conc=conc)
    f = RaggedArray(typed([c for r in rows for c in r], dtype), arr([len(r) for r in rows], "int64"))
    od = outcome(lambda: op_fn(d))
    of = outcome(lambda: op_fn(f))
    return od, of, obs_ragged(a)
