"""C19 -- results do not depend on the index-width configuration.

Relational over configurations: a C01-C09 harness body is executed twice on the same symbolic input in one path -- under
ViewBase.set_dtype(np.int64) and under set_dtype(np.int32) -- and the two outcomes (cells, row lengths, dtypes, raised-or-not) must be equal.
The 32-bit row gather (codes.view(uint64)[idx].view(int32)) is modelled bit-exactly: little-endian concat/extract over the bit patterns of the
(start, length) pairs, and numpy's refusal of a size-changing view on a non-contiguous array.
"""
import numpy as np
from . import common
from .common import harness

BASES = {"c06": "C06", "c01": "C01", "c02": "C02", "c03": "C03", "c04": "C04", "c05": "C05", "c07": "C07", "c08": "C08", "c09": "C09"}


def _base(p):
    mod = __import__("harness." + p["bmod"], fromlist=["x"])
    return common.HARNESSES[p["bh"]]


def _with_dtype(dt, fn):
    from npstructures.raggedshape import ViewBase
    ViewBase.set_dtype(dt)
    try:
        return fn()
    finally:
        ViewBase.set_dtype(np.int64)


STRICT = [False]          # reductions (C05 bodies): the result is data, its element type must not follow the index width


def _strip_index_dtype(o):
    """row-length / index arrays legitimately carry the configured index dtype: compare their values, not their width"""
    if STRICT[0]:
        return o
    if isinstance(o, dict):
        if o.get("k") in ("array", "ragged", "scalar") and o.get("dtype") in ("int32", "int64"):
            o = dict(o, dtype="*")
        if o.get("k") == "tuple":
            o = dict(o, items=[_strip_index_dtype(i) for i in o["items"]])
    return o


def sym(E, p, kf):
    from symx import specs
    H = _base(p)
    STRICT[0] = p["bmod"] == "c05" and p["bp"].get("op") in ("sum", "prod", "max", "min")
    r64 = _with_dtype(np.int64, lambda: H["sym"](E, p["bp"], kf))
    r32 = _with_dtype(np.int32, lambda: H["sym"](E, p["bp"], kf))
    g64, g32 = r64.get("got"), r32.get("got")
    case = dict(p=p, base=r64["case"])
    if g64 is None or g32 is None:
        return dict(goal=specs.conj([r64["goal"], r32["goal"]]), got=None, case=case)
    if g64["k"] != g32["k"]:
        return dict(goal=False, got=g32, case=case)
    if g64["k"] == "raise":
        return dict(goal=specs.conj([r64["goal"], r32["goal"]]), got=g32, case=case)
    # equal outcomes, and the 32-bit outcome satisfies the base property's own oracle
    own = r32["goal"] if p["bmod"] != "c01" else True       # C01's oracle pins the index arrays' dtype to the 64-bit configuration
    return dict(goal=specs.conj([specs.obs_goal(_strip_index_dtype(g32), _strip_index_dtype(g64)), own]), got=g32, case=case)


def conc(case):
    p = case["p"]
    H = _base(p)
    STRICT[0] = p["bmod"] == "c05" and p["bp"].get("op") in ("sum", "prod", "max", "min")
    base = dict(case["base"])
    r64 = _with_dtype(np.int64, lambda: H["conc"](dict(base)))
    r32 = _with_dtype(np.int32, lambda: H["conc"](dict(base)))
    opts = dict(r64[2]) if len(r64) > 2 else {}
    if STRICT[0]:
        opts["dtype_matters"] = True
    g32, g64 = _strip_index_dtype(common.norm_obs(r32[0])), _strip_index_dtype(common.norm_obs(r64[0]))
    # the 32-bit run must equal the 64-bit run; the 64-bit run is judged against the reference by the base property's own check
    return g32, g64, opts


def jobs(tier, seed):
    q = tier == "quick"
    out = []

    def add(bmod, bh, bp):
        out.append(dict(h="C19.config", p=dict(bmod=bmod, bh=bh, bp=bp)))
    b2 = dict(R=2 if q else 3, L=3, B=3)
    for rk in [dict(rk="all"), dict(rk="int"), dict(rk="mask"), dict(rk="list", k=2), dict(rk="array", k=2), dict(rk="ellipsis")]:
        add("c02", "C02.index", dict(b2, ck="none", **rk))
    for s in (None, 1, 2, -1, -2):
        add("c02", "C02.index", dict(b2, ck="none", rk="slice", rstep=s, RB=3))
    for rk in [dict(rk="all"), dict(rk="list", k=2), dict(rk="slice", rstep=-1, rpres=[(1, 0)], RB=2), dict(rk="slice", rstep=2, rpres=[(0, 0)], RB=2)]:
        add("c02", "C02.index", dict(b2, ck="int", **rk))
        for cs in (None, -1, 2):
            add("c02", "C02.index", dict(b2, ck="slice", cstep=cs, **rk))
    for s_ in (None, -1, 2):
        add("c02", "C02.index", dict(R=2, L=2, B=3, ck="slice", cstep=s_, rk="all", huge=True))          # slice bounds around +-2^40 under both widths
        add("c02", "C02.index", dict(R=2, L=2, B=3, ck="none", rk="slice", rstep=s_, huge=True))
    add("c02", "C02.pairs", dict(R=2, L=2, k=2, B=3))
    add("c02", "C02.pairs", dict(R=2, L=2, k=1, B=3, huge=True))          # element positions beyond the 32-bit range are refused under both widths
    b3 = dict(R=2, L=3, B=3)
    for rk in [dict(rk="all"), dict(rk="list", k=2), dict(rk="slice", rstep=-1, rpres=[(1, 0)], RB=2), dict(rk="mask")]:
        for vk in ("scalar", "flat", "ragged"):
            add("c03", "C03.setitem", dict(b3, ck="none", vk=vk, **rk))
        add("c03", "C03.setitem", dict(b3, ck="slice", cstep=-1, vk="scalar", **rk))
    add("c03", "C03.setitem", dict(R=2, L=2, B=3, ck="none", vk="column", rk="all"))
    for op in ("sum", "any", "max"):
        add("c05", "C05.reduce", dict(R=3, L=3, op=op, via="method", Rmin=1 if op == "max" else 0))
    add("c05", "C05.reduce", dict(R=3, L=2, op="sum", via="np"))
    add("c05", "C05.reduce", dict(R=3, L=2, op="prod", via="method"))
    add("c05", "C05.reduce", dict(R=3, L=3, op="sum", via="none"))
    for op in ("cumsum", "acc_add", "sort", "unique_counts", "diff"):
        add("c07", "C07.rowwise", dict(R=3, L=3, op=op, n=1))
    for bp in (dict(op="concat0", k=2, R=2, L=2), dict(op="subset", R=3, L=3), dict(op="nonzero", R=3, L=3), dict(op="rslice", src="ragged", R=2, L=3),
               dict(op="padded", side="left", R=3, L=3), dict(op="where", x="ragged", y="scalar", R=3, L=3), dict(op="zeros_like", R=3, L=3)):
        add("c08", "C08.struct", bp)
    for pr in (None, "rc", "p", "ia"):
        add("c01", "C01.build", dict(R=3, L=3, dtype="int64", probe=pr))
    add("c01", "C01.mismatch", dict(R=3, L=2, how="array"))
    add("c01", "C01.numpy", dict(R=3, L=2, what="from"))          # a matrix converted (and a row selection of it) under both widths, one after the other
    add("c01", "C01.numpy", dict(R=3, L=2, what="to"))
    add("c04", "C04.ufunc", dict(R=3, L=2, op="subtract", kind="rc", dt1="int64", dt2="int64", sk=None))
    add("c04", "C04.ufunc", dict(R=3, L=2, op="add", kind="rr", dt1="uint8", dt2="int8", sk=None))
    add("c04", "C04.ufunc", dict(R=3, L=2, op="subtract", kind="rr_bad", dt1="int64", dt2="int64"))
    for bp in (dict(op="sum0", dtype="int64", R=3, L=3), dict(op="col_counts", dtype="int64", R=3, L=3), dict(op="colvals", dtype="int64", R=3, L=3)):
        add("c09", "C09.columns", bp)
    # selections of selections and operations whose operand is a pending selection (second gathers on (start, length) codes)
    for steps in (["rowlist", "mask"], ["rowrev", "mask"], ["mask", "rowlist"], ["rowslice_a", "rowlist"], ["colslice_a", "mask"], ["rowlist", "colrev"], ["mask", "mask"], ["rowstep2", "rowrev"]):
        for pk in ("read", "rowsum") if q else ("read", "rowsum", "rowint", "colslice", "set_row"):
            add("c06", "C06.derived", dict(R=2 if q else 3, L=2, B=2, steps=steps, probe=pk))
    for pre in ("rowlist", "mask", "rowrev"):
        add("c05", "C05.reduce", dict(R=3, L=2, op="sum", via="method", pre=pre))
        add("c08", "C08.onview", dict(R=3, L=1 if pre == "rowlist" else 2, pre=pre if pre != "rowlist" else "rowlist3", op="concat"))
        add("c09", "C09.onview", dict(R=3, L=1 if pre == "rowlist" else 2, pre=pre if pre != "rowlist" else "rowlist3", op="sum0"))
    return out


harness("C19.config", jobs, sym, conc)
