"""C11 -- HashTable is a dictionary over a fixed set of integer keys.

State families: built with per-key values | built with a scalar | scalar then materialised by a first assignment.
One operation with symbolic arguments from each state family, then a full read-back of every key:
  get1 / getv (repeats; absent key => must refuse) / set1 / setv (scalar or per-key values) / contains / hs_contains (HashSet, scalar and
  vector) / fill / zeros_like / ones_like / add / eq / items.
Keys: distinct symbolic integers up to 2^62 in magnitude (Int-represented; the key comparison goes through the XOR column broadcast on
their bit patterns, handled by the uninterpreted bijection), or 8-bit vectors for the int8/uint8 variants.  The modulus is forked over
1..modmax and the default 2n-1; numpy's unstable argsort is modelled as *any* sorting permutation.
Oracle: a python dict.
"""
import numpy as np
from . import common
from .common import harness, outcome, arr, pyint, cells

KB = 1 << 62
VB = 1000


_INPUTS = []


def build(HashTable, c, p):
    kd = p.get("kdtype", "int64")
    keys = arr(c["keys"], kd)
    kw = {} if c["mod"] is None else {"mod": c["mod"]}
    if p["state"] == "array":
        vals_in = common.typed(c["vals"], p.get("vdtype", "int64"))
        _INPUTS[:] = [keys, vals_in]
        return HashTable(keys, vals_in, **kw)
    t = HashTable(keys, pyint(c["vals"][0]), value_dtype=int, **kw)
    if p["state"] == "filled":
        t[keys[:1]] = t[keys[:1]]          # first write materialises the scalar
    return t


def _qint(x, kd):
    """a python integer for a scalar query: 8-bit vectors are read in the key dtype's signedness"""
    if common.SYMBOLIC and not isinstance(x, (int, bool)):
        import z3
        if z3.is_bv(x):
            x = z3.BV2Int(x, is_signed=kd.startswith("int"))
    return pyint(x)


def run_op(c, p):
    from npstructures import HashTable, HashSet
    op, kd = p["op"], p.get("kdtype", "int64")
    if op == "hs_contains":
        kw = {} if c["mod"] is None else {"mod": c["mod"]}
        hs = HashSet(arr(c["keys"], kd), **kw)
        if p.get("scalar"):
            return hs.contains(_qint(c["q"][0], kd)), None
        return hs.contains(arr(c["q"], p.get("qdtype", kd))), None
    t = build(HashTable, c, p)
    for how in p.get("like", ()):
        # a table derived from a table (possibly from a derived one): all keys, every value 0 / 1; it is written and read below
        t = (np.zeros_like if how == "zeros" else np.ones_like)(t)
    keys = arr(c["keys"], kd)
    res = None
    if op == "get1":
        res = t[_qint(c["q"][0], kd)]
        if hasattr(res, "ravel"):
            res = res.ravel()           # the library answers a single key with a one-element array: accepted
    elif op == "getv":
        res = t[arr(c["q"], p.get("qdtype", kd))] if not p.get("aslist") else t[[pyint(x) for x in c["q"]]]
    elif op == "set1":
        t[_qint(c["q"][0], kd)] = pyint(c["v"][0])
    elif op == "setv":
        t[arr(c["q"], p.get("qdtype", kd))] = common.typed(c["v"], p.get("vdtype", "int64")) if p.get("vvec") else pyint(c["v"][0])
    elif op == "contains":
        res = t.contains(arr(c["q"], p.get("qdtype", kd)))
    elif op == "fill":
        t.fill(pyint(c["v"][0]))
    elif op == "zeros_like":
        res = np.zeros_like(t)[keys]
    elif op == "ones_like":
        res = np.ones_like(t)[keys]
    elif op == "add":
        t2 = HashTable(keys, arr(c["v"], "int64"), **({} if c["mod"] is None else {"mod": c["mod"]})) if p["state"] == "array" else build(HashTable, dict(c, vals=c["v"]), p)
        res = (t + t2)[keys]
    elif op == "eq":
        t2 = HashTable(keys, arr(c["v"], "int64"), **({} if c["mod"] is None else {"mod": c["mod"]}))
        res = t == t2
    elif op == "items":
        its = list(t.items())
        res = (arr([k for k, _ in its], kd), arr([v for _, v in its], "int64"))
    if p.get("inputs") and p["state"] == "array":
        return res, t[keys], _INPUTS[0], _INPUTS[1]          # the arrays handed to the constructor still hold what the caller put there
    return res, t[keys]


def gen(E, p):
    import z3
    n = E.concretize(E.int("n", 1, p["n"]))
    kd = p.get("kdtype", "int64")
    if kd == "int64":
        keys = [E.int(f"k{i}", -KB, KB) for i in range(n)]
    else:
        keys = [E.bv(f"k{i}", 8) for i in range(n)]
    if n > 1:
        E.assume(z3.Distinct(*keys))
    nv = n if p["state"] == "array" else 1
    fv = p.get("vdtype") == "float64"      # float-valued table: values are IEEE bit patterns, stored and returned unchanged
    vals = [E.bv(f"v{i}", 64) for i in range(nv)] if fv else [E.int(f"v{i}", -VB, VB) for i in range(nv)]
    mods = list(range(1, p["modmax"] + 1)) + ([None] if p.get("defaultmod", True) else [])
    mod = E.choose("mod", mods)
    c = dict(keys=keys, vals=vals, mod=mod)
    op = p["op"]
    nq = p.get("nq", 1)
    mkq = (lambda name: E.int(name, -KB, KB)) if kd == "int64" else (lambda name: E.bv(name, 8))
    if p.get("qdtype") == "int64" and kd != "int64":
        mkq = lambda name: E.bv(name, 64)       # queries wider than the key dtype (64-bit vectors): values that do not fit must be absent
    if op in ("get1", "set1") or (op == "hs_contains" and p.get("scalar")):
        c["q"] = [mkq("q0")]
    elif op in ("getv", "setv", "contains", "hs_contains"):
        k = E.concretize(E.int("nq", 0 if op in ("getv", "contains", "hs_contains") and not p.get("aslist") else 1, nq))
        c["q"] = [mkq(f"q{j}") for j in range(k)]
    if op in ("set1", "fill"):
        c["v"] = [E.int("w0", -VB, VB)]
    elif op == "setv":
        c["v"] = [(E.bv(f"w{j}", 64) if fv else E.int(f"w{j}", -VB, VB)) for j in range(len(c["q"]) if p.get("vvec") else 1)]
    elif op in ("add", "eq"):
        c["v"] = [E.int(f"w{i}", -VB, VB) for i in range(n if (op == "eq" or p["state"] == "array") else 1)]
    return c


def sym(E, p, kf):
    import z3
    from symx import specs
    c = gen(E, p)
    keys, vals, op = c["keys"], c["vals"], p["op"]
    n = len(keys)
    val_of = (lambda i: vals[i]) if p["state"] == "array" else (lambda i: vals[0])
    if p.get("like"):
        val_of = lambda i: z3.IntVal(0 if p["like"][-1] == "zeros" else 1)
        if p.get("vdtype") == "float64":
            val_of = lambda i: z3.BitVecVal(0 if p["like"][-1] == "zeros" else 0x3FF0000000000000, 64)
    q = c.get("q", [])
    signed_key = p.get("kdtype", "int64") == "int8"

    def same(qq, k):
        if z3.is_bv(qq) and z3.is_bv(k) and qq.size() != k.size():
            return qq == (z3.SignExt(qq.size() - k.size(), k) if signed_key else z3.ZeroExt(qq.size() - k.size(), k))
        return qq == k
    present = [z3.Or(*[same(qq, k) for k in keys]) for qq in q]

    def lookup(qq, valfn):
        out = valfn(n - 1)
        for i in range(n - 2, -1, -1):
            out = z3.If(same(qq, keys[i]), valfn(i), out)
        return out
    if op in ("get1", "set1"):
        E.assume(present[0])          # scalar access to an absent key is outside the claim (the library returns an empty array)
    if "KF-C11-1" in kf and (p["state"] == "scalar" or p.get("like")) and op == "getv":
        E.assume(z3.And(*present) if present else True)      # open known finding: scalar-valued tables do not check membership
    if op == "setv" and len(q) > 1:
        E.assume(z3.Distinct(*q))     # repeated targets: numpy leaves the winner unspecified
    got = outcome(lambda: run_op(c, p))
    case = dict(p=p, c=c)
    kd = p.get("kdtype", "int64")
    if got["k"] == "raise":
        if op in ("getv", "setv"):
            return dict(goal=z3.Not(z3.And(*present)) if present else False, got=got, case=case)
        return dict(goal=False, got=got, case=case)
    res, after = got["items"][0], got["items"][1]
    conds = []
    if len(got["items"]) == 4:
        conds.append(specs.obs_goal(got["items"][2], dict(k="array", flat=list(keys), shape=[n], dtype="*")))
        conds.append(specs.obs_goal(got["items"][3], dict(k="array", flat=list(vals), shape=[n], dtype="*")))
    if op in ("getv", "setv"):
        conds += present
    final = [val_of(i) for i in range(n)]
    if op == "set1":
        final = [z3.If(q[0] == keys[i], c["v"][0], val_of(i)) for i in range(n)]
    elif op == "setv":
        final = []
        for i in range(n):
            cur = val_of(i)
            for j, qq in enumerate(q):
                cur = z3.If(same(qq, keys[i]), c["v"][j] if p.get("vvec") else c["v"][0], cur)
            final.append(cur)
    elif op == "fill":
        final = [c["v"][0]] * n
    if op != "hs_contains":
        conds.append(specs.obs_goal(after, dict(k="array", flat=final, shape=[n], dtype="*")))
    if op == "get1":
        if res["k"] == "scalar":
            conds.append(specs.eqv(res["val"], lookup(q[0], val_of)))
        else:
            conds.append(specs.obs_goal(res, dict(k="array", flat=[lookup(q[0], val_of)], shape=[1], dtype="*")))
    elif op == "getv":
        conds.append(specs.obs_goal(res, dict(k="array", flat=[lookup(qq, val_of) for qq in q], shape=[len(q)], dtype="*")))
    elif op == "contains" or (op == "hs_contains" and not p.get("scalar")):
        conds.append(specs.obs_goal(res, dict(k="array", flat=present, shape=[len(q)], dtype="bool")))
    elif op == "hs_contains":
        conds.append(specs.eqv(res["val"], present[0]) if res["k"] == "scalar" else False)
    elif op in ("zeros_like", "ones_like"):
        conds.append(specs.obs_goal(res, dict(k="array", flat=[0 if op == "zeros_like" else 1] * n, shape=[n], dtype="*")))
    elif op == "add":
        w = c["v"]
        conds.append(specs.obs_goal(res, dict(k="array", flat=[val_of(i) + (w[i] if len(w) == n and p["state"] == "array" else w[0]) for i in range(n)], shape=[n], dtype="*")))
    elif op == "eq":
        conds.append(specs.eqv(res["val"], z3.And(*[val_of(i) == c["v"][i] for i in range(n)])) if res["k"] == "scalar" else False)
    elif op == "items":
        if res["k"] != "tuple" or len(res["items"][0]["flat"]) != n:
            conds.append(False)
        else:
            gk, gv = res["items"][0]["flat"], res["items"][1]["flat"]
            for a in range(n):
                ka = gk[a] if z3.is_expr(gk[a]) else specs.lift(gk[a], keys[0].sort())
                conds.append(z3.Or(*[z3.And(ka == keys[i], specs.eqv(gv[a], val_of(i))) for i in range(n)]))
            if n > 1:
                conds.append(z3.Distinct(*[g if z3.is_expr(g) else specs.lift(g, keys[0].sort()) for g in gk]))
    if op == "items":
        got = None        # bucket order depends on numpy's unspecified argsort tie order: not comparable cell by cell with a concrete run
    return dict(goal=specs.conj(conds), got=got, case=case)


def kf_match(case):
    p, c = case["p"], case["c"]
    if (p["state"] == "scalar" or p.get("like")) and p["op"] == "getv" and any(x not in c["keys"] for x in c.get("q", [])):
        return ["KF-C11-1"]
    return []


def _sk(vals, kd):
    if kd == "int8":
        return [v - 256 if v >= 128 else v for v in vals]
    return list(vals)


def conc(case):
    p, c = case["p"], dict(case["c"])
    kd = p.get("kdtype", "int64")
    c["keys"] = _sk(c["keys"], kd)
    if "q" in c and p.get("qdtype", kd) == kd:
        c["q"] = _sk(c["q"], kd)
    elif "q" in c:
        c["q"] = [x - (1 << 64) if x >= 1 << 63 else x for x in c["q"]]
    keys, vals, op = c["keys"], c["vals"], p["op"]
    n = len(keys)
    got = outcome(lambda: run_op(c, p))
    d = {k: (vals[i] if p["state"] == "array" else vals[0]) for i, k in enumerate(keys)}
    if p.get("like"):
        d = {k: (0 if p["like"][-1] == "zeros" else (1 if p.get("vdtype") != "float64" else 0x3FF0000000000000)) for k in keys}
    q = c.get("q", [])
    A = common.ref_array
    res = {"k": "none"}
    if op in ("getv", "setv") and any(x not in d for x in q):
        return got, common.refused()
    if op == "get1":
        res = common.ref_scalar(d[q[0]], "*") if got["k"] == "tuple" and got["items"][0]["k"] == "scalar" else A([d[q[0]]], [1], "*")
    elif op == "getv":
        res = A([d[x] for x in q], [len(q)], "*")
    elif op == "set1":
        d[q[0]] = c["v"][0]
    elif op == "setv":
        for j, x in enumerate(q):
            d[x] = c["v"][j] if p.get("vvec") else c["v"][0]
    elif op == "contains" or (op == "hs_contains" and not p.get("scalar")):
        res = A([x in d for x in q], [len(q)], "bool")
    elif op == "hs_contains":
        res = common.ref_scalar(q[0] in d, "*")
    elif op == "fill":
        d = {k: c["v"][0] for k in keys}
    elif op in ("zeros_like", "ones_like"):
        res = A([0 if op == "zeros_like" else 1] * n, [n], "*")
    elif op == "add":
        w = c["v"]
        res = A([d[k] + (w[i] if len(w) == n and p["state"] == "array" else w[0]) for i, k in enumerate(keys)], [n], "*")
    elif op == "eq":
        res = common.ref_scalar(all(d[k] == c["v"][i] for i, k in enumerate(keys)), "*")
    elif op == "items":
        r = got
        if r["k"] == "tuple" and r["items"][0]["k"] == "tuple":
            gk, gv = r["items"][0]["items"][0]["flat"], r["items"][0]["items"][1]["flat"]
            ok = sorted(zip(gk, gv)) == sorted(d.items())
            res = r["items"][0] if ok else dict(k="scalar", val="items differ from the dict", dtype="*")
    if op == "hs_contains":
        return got, dict(k="tuple", items=[res, {"k": "none"}]), {"dtype_matters": False}
    items = [res, A([d[k] for k in keys], [n], "*")]
    if p.get("inputs") and p["state"] == "array":
        items += [A(list(keys), [n], "*"), A(list(vals), [n], "*")]
    return got, dict(k="tuple", items=items), {"dtype_matters": False}


def jobs(tier, seed):
    q = tier == "quick"
    base = dict(n=2 if q else 3, modmax=2 if q else 3, nq=2)
    # (three symbolic 62-bit keys, three moduli and three queries at once exceed the per-query solver budget: thorough widens keys and moduli,
    #  and a separate family keeps two keys with three queries)
    out = []
    for state in ("array", "scalar", "filled"):
        for op in ("get1", "getv", "set1", "setv", "contains", "fill"):
            out.append(dict(base, op=op, state=state))
        out.append(dict(base, op="setv", state=state, vvec=True))
    out.append(dict(base, op="getv", state="array", aslist=True))
    for op in ("setv", "set1", "fill"):
        out.append(dict(base, op=op, state="array", inputs=True, vvec=(op == "setv")))
    for op in ("zeros_like", "ones_like", "add", "eq", "items"):
        out.append(dict(base, op=op, state="array"))
    out.append(dict(base, op="add", state="scalar"))
    out.append(dict(base, op="hs_contains", state="scalar"))
    out.append(dict(base, op="hs_contains", state="scalar", scalar=True))
    # 3 keys: collisions among three, buckets of length 2 and 3
    if q:
        out.append(dict(base, op="getv", state="array", n=3, modmax=1, nq=1))
    else:
        out.append(dict(base, op="getv", state="array", n=3, modmax=4, nq=2))
        out.append(dict(base, op="setv", state="array", n=3, modmax=3, nq=2, vvec=True))
    # 8-bit keys (signed / unsigned remainder)
    for kd in ("uint8", "int8"):
        out.append(dict(base, op="getv", state="array", kdtype=kd))
        out.append(dict(base, op="contains", state="array", kdtype=kd))
        # queries given in a wider dtype than the keys: out-of-range query values are absent keys, not aliases of present ones
        out.append(dict(base, op="getv", state="array", kdtype=kd, qdtype="int64", nq=1, defaultmod=False))
        out.append(dict(base, op="setv", state="array", kdtype=kd, qdtype="int64", nq=1, defaultmod=False))
        out.append(dict(base, op="contains", state="array", kdtype=kd, qdtype="int64", nq=1, defaultmod=False))
        out.append(dict(base, op="hs_contains", state="scalar", kdtype=kd, qdtype="int64", nq=1, defaultmod=False))
    # tables derived by zeros_like / ones_like (also from derived and from scalar-valued ones), then written and read
    for kd in ("int64", "uint8"):
        for state in ("array", "scalar"):
            for like in (["zeros"], ["ones"], ["zeros", "zeros"], ["ones", "zeros"]):
                if q and kd == "int64" and len(like) == 2:
                    continue
                out.append(dict(base, op="setv", state=state, kdtype=kd, like=like, vvec=True, nq=1 if kd != "int64" else base["nq"]))
        out.append(dict(base, op="getv", state="array", kdtype=kd, like=["ones"], nq=1))
        out.append(dict(base, op="set1", state="scalar", kdtype=kd, like=["zeros", "ones"]))
    # float-valued tables: values (bit patterns) are stored and returned unchanged, also by a table derived with zeros_like / ones_like
    for like in ([], ["zeros"], ["ones", "zeros"]):
        out.append(dict(base, op="setv", state="array", vdtype="float64", like=like, vvec=True))
        out.append(dict(base, op="getv", state="array", vdtype="float64", like=like))
    if not q:
        small = dict(n=2, modmax=2, nq=3)
        tiny = dict(n=2, modmax=2, nq=2)          # 8-bit keys: bit-vector remainders; three queries on top exceed the solver budget
        out = [dict(o, **tiny) if (o.get("kdtype") in ("uint8", "int8") and not o.get("like")) else dict(o, **small) if (o.get("like") or o.get("vdtype") or o.get("inputs") or o.get("kdtype")) else o for o in out]
        for op in ("getv", "setv", "contains"):
            out.append(dict(small, op=op, state="array", vvec=(op == "setv")))
    return [dict(h="C11.table", p=p) for p in out]


harness("C11.table", jobs, sym, conc)
