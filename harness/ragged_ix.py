"""Index expressions over RaggedArray: shared builders, the executable list-of-rows reference, and the
declarative (z3) model.  Used by C02, C03, C06, C10, C19.

Index spec (JSON-able; leaves may be z3 terms on the symbolic side):
  rows: {"t": "all" | "ellipsis"} | {"t": "int", "i": i} | {"t": "slice", "a": a|None, "b": b|None, "s": s|None}
        | {"t": "list", "v": [i, ...]} | {"t": "array", "v": [...]} | {"t": "mask", "v": [bool, ...]}
  cols: {"t": "none"} | {"t": "int", "j": j} | {"t": "slice", "a":, "b":, "s":}
"""
import numpy as np
from . import common
from .common import pyint


class Refuse(Exception):
    pass


# ------------------------------------------------------------------ building python index objects
def _slice(d):
    s = d.get("s")
    return slice(pyint(d.get("a")), pyint(d.get("b")), None if s is None else int(s))


def build_rowsel(rs):
    t = rs["t"]
    if t == "all":
        return slice(None)
    if t == "ellipsis":
        return Ellipsis
    if t == "int":
        return _scalar(rs["i"], rs.get("np"))
    if t == "slice":
        return _slice(rs)
    if t == "list":
        return [pyint(v) for v in rs["v"]]
    if t == "array":
        return common.arr(rs["v"], "int64")
    if t == "mask":
        return common.arr(rs["v"], "bool")
    raise ValueError(t)


def _scalar(v, as_numpy):
    """an integer index as a python int or (as_numpy) as a numpy integer scalar -- both are integers to the indexing grammar"""
    import numpy as np
    return np.int64(pyint(v)) if as_numpy else pyint(v)


def build_index(rs, cs):
    r = build_rowsel(rs)
    t = cs["t"]
    if t == "none":
        if rs["t"] == "all" and rs.get("tuple"):
            return (r,)
        return r
    if t == "int":
        return (r, _scalar(cs["j"], cs.get("np")))
    if t == "slice":
        return (r, _slice(cs))
    raise ValueError(t)


def result_kind(rs, cs):
    if rs["t"] == "int":
        return "scalar" if cs["t"] == "int" else "array"
    return "array" if cs["t"] == "int" else "ragged"


# ------------------------------------------------------------------ executable reference (plain python lists)
def ref_select_rows(R, rs):
    """-> list of selected row numbers (normalised), or raises Refuse"""
    t = rs["t"]
    if t in ("all", "ellipsis"):
        return list(range(R))
    if t == "int":
        i = rs["i"]
        if not -R <= i < R:
            raise Refuse()
        return [i % R]
    if t == "slice":
        return list(range(R))[slice(rs.get("a"), rs.get("b"), rs.get("s"))]
    if t in ("list", "array"):
        out = []
        for i in rs["v"]:
            if not -R <= i < R:
                raise Refuse()
            out.append(i % R)
        return out
    if t == "mask":
        if len(rs["v"]) != R:
            raise Refuse()
        return [i for i, m in enumerate(rs["v"]) if m]
    raise ValueError(t)


def ref_addresses(lens, rs, cs):
    """-> list (one per selected row) of lists of (row, col) source coordinates; raises Refuse"""
    sel = ref_select_rows(len(lens), rs)
    out = []
    for r in sel:
        n = lens[r]
        if cs["t"] == "none":
            cols = list(range(n))
        elif cs["t"] == "int":
            j = cs["j"]
            if not -n <= j < n:
                raise Refuse()
            cols = [j % n]
        else:
            cols = list(range(n))[slice(cs.get("a"), cs.get("b"), cs.get("s"))]
        out.append([(r, c) for c in cols])
    return out


def ref_getitem(rows, rs, cs, dtype):
    lens = [len(r) for r in rows]
    try:
        addr = ref_addresses(lens, rs, cs)
    except Refuse:
        return common.refused()
    vals = [[rows[r][c] for r, c in a] for a in addr]
    kind = result_kind(rs, cs)
    if kind == "ragged":
        return common.ref_ragged(vals, dtype)
    if kind == "scalar":
        return common.ref_scalar(vals[0][0], dtype)
    if rs["t"] == "int":
        return common.ref_array(vals[0], [len(vals[0])], dtype)
    return common.ref_array([v[0] for v in vals], [len(vals)], dtype)


# ------------------------------------------------------------------ declarative model (z3)
def z3_model(E, lens, rs, cs):
    """After the operation ran.  Returns (must_refuse, rowterms, per-row (first, count, step)) with
    rowterms a python list of K row-number terms.  May concretize slice bounds / mask count (no new
    behaviour: the code under test forks on the same quantities)."""
    import z3
    from symx import specs
    R = len(lens)
    refuse = []
    t = rs["t"]
    if t in ("all", "ellipsis"):
        rowterms = list(range(R))
    elif t == "int":
        ok, i = specs.wrap_index(rs["i"], R)
        refuse.append(z3.Not(ok))
        rowterms = [i]
    elif t == "slice":
        a = None if rs.get("a") is None else E.concretize(rs["a"])
        b = None if rs.get("b") is None else E.concretize(rs["b"])
        rowterms = list(range(R))[slice(a, b, rs.get("s"))]
    elif t in ("list", "array"):
        rowterms = []
        for v in rs["v"]:
            ok, i = specs.wrap_index(v, R)
            refuse.append(z3.Not(ok))
            rowterms.append(i)
    elif t == "mask":
        bits = [specs.lift(b, z3.BoolSort()) for b in rs["v"]]
        K = E.concretize(specs.count_true(bits))
        rowterms = []
        for k in range(K):
            cur = z3.IntVal(R)      # unreachable default
            pref = z3.IntVal(0)
            terms = []
            for i, b in enumerate(bits):
                terms.append((z3.And(b, pref == k), i))
                pref = pref + z3.If(b, 1, 0)
            for c, i in reversed(terms):
                cur = z3.If(c, i, cur)
            rowterms.append(cur)
    else:
        raise ValueError(t)

    def len_of(r):
        return lens[r] if isinstance(r, int) else (specs.select_chain(lens, r) if R else z3.IntVal(0))

    starts, _ = specs.prefix_starts(lens)

    def start_of(r):
        return starts[r] if isinstance(r, int) else (specs.select_chain(starts, r) if R else z3.IntVal(0))

    geo = []
    for r in rowterms:
        n = len_of(r)
        if cs["t"] == "none":
            geo.append((start_of(r), z3.IntVal(0), specs.I(n), 1))
        elif cs["t"] == "int":
            ok, j = specs.wrap_index(cs["j"], n)
            refuse.append(z3.Not(ok))
            geo.append((start_of(r), j, z3.IntVal(1), 1))
        else:
            s = cs.get("s")
            s = 1 if s is None else int(s)
            first, cnt = specs.py_slice(cs.get("a"), cs.get("b"), s, n)
            geo.append((start_of(r), first, cnt, s))
    return specs.disj(refuse), rowterms, geo


def z3_getitem_goal(E, lens, data, rs, cs, got):
    """goal stating that outcome `got` (observation with z3 leaves) is what the list-of-rows model gives"""
    import z3
    from symx import specs
    must_refuse, rowterms, geo = z3_model(E, lens, rs, cs)
    if got["k"] == "raise":
        return must_refuse if must_refuse is not False else False
    conds = [z3.Not(must_refuse) if must_refuse is not False and must_refuse is not True else (not must_refuse)]
    D = specs.store_of(data)
    kind = result_kind(rs, cs)

    def cell(k, c):
        st, first, cnt, step = geo[k]
        return z3.Select(D, st + first + specs.I(c) * step)

    if kind == "ragged":
        if got["k"] != "ragged":
            return False
        conds += specs.ragged_matches(got["flat"], got["lens"], [g[2] for g in geo], cell)
    elif kind == "scalar":
        if got["k"] != "scalar":
            return False
        conds.append(specs.eqv(got["val"], cell(0, 0)))
    elif rs["t"] == "int":
        if got["k"] != "array" or len(got["shape"]) != 1:
            return False
        conds.append(geo[0][2] == got["shape"][0])
        for q, g in enumerate(got["flat"]):
            conds.append(specs.eqv(g, cell(0, q)))
    else:
        if got["k"] != "array" or len(got["shape"]) != 1:
            return False
        conds.append(len(geo) == got["shape"][0])
        for k in range(min(len(geo), len(got["flat"]))):
            conds.append(specs.eqv(got["flat"][k], cell(k, 0)))
    return specs.conj(conds)
