"""Helpers shared by the symbolic side (python3-vt, `numpy` = /verif/shim/numpy) and the replay side
(/venv/bin/python, real numpy).  Nothing here may import z3 at module level.

Observation format (JSON-able; leaves may be z3 terms on the symbolic side and are evaluated under a model):
  ragged result : {"k": "ragged", "flat": [...], "lens": [...], "dtype": "int64"}
  dense array   : {"k": "array", "flat": [...], "shape": [...], "dtype": "int64"}
  scalar        : {"k": "scalar", "val": v, "dtype": "int64" | "py"}
  refusal       : {"k": "raise", "exc": "IndexError"}      ("*" in an expected observation matches any class)
  tuple/list    : {"k": "tuple", "items": [obs, ...]}
"""
import numpy as np

SYMBOLIC = hasattr(np, "ShimUnsupported")

HARNESSES = {}


def harness(name, jobs, sym, conc, descr=""):
    HARNESSES[name] = dict(name=name, jobs=jobs, sym=sym, conc=conc, descr=descr)


# ------------------------------------------------------------------ world-agnostic accessors
def cells(a):
    """flat list of the cells of an ndarray / scalar (z3 terms or python values)"""
    if hasattr(a, "_cells"):
        # bit patterns of Int-represented data (uninterpreted bijection, DESIGN 3.3) are observed as numbers
        out = [np._bv_to_int(c) if np._is_bits_term(c) else c for c in a._cells()]
        if any(isinstance(c, float) for c in out):      # concrete floats of the symbolic numpy: observed as bit patterns like everything else
            import struct
            fmt = {2: ("<e", "<H"), 4: ("<f", "<I"), 8: ("<d", "<Q")}[a.dtype.itemsize]
            out = [struct.unpack(fmt[1], struct.pack(fmt[0], c))[0] if isinstance(c, float) else c for c in out]
        return out
    if hasattr(a, "val") and hasattr(a, "weak"):      # shim scalar / symbolic python scalar
        return [a.val]
    a = np.asarray(a)
    if a.dtype.kind == "f":      # floats are observed as bit patterns (the symbolic side carries bit patterns)
        a = np.ascontiguousarray(a).view({2: np.uint16, 4: np.uint32, 8: np.uint64}[a.dtype.itemsize])
    return a.ravel().tolist()


def dtname(a):
    return str(a.dtype.name if hasattr(a.dtype, "name") else a.dtype)


def arr(values, dtype):
    """1-D array from a python list (possibly empty, possibly z3 cells)"""
    if len(values) == 0:
        return np.zeros(0, dtype=dtype)
    return np.array(list(values), dtype=dtype)


def mk_ragged(RaggedArray, data, lens, dtype="int64"):
    return RaggedArray(typed(data, dtype), arr(lens, "int64"))


def pyval(v):
    """python-level scalar (int or bool) from a python value or z3 term"""
    if isinstance(v, (bool, int)) or v is None:
        return v
    if SYMBOLIC and hasattr(v, "sort") and str(v.sort()) == "Bool":
        return np.SymPy(v)
    return pyint(v)


def farr(bits, dtype):
    """float array from bit patterns (ints or z3 bit-vectors)"""
    u = {"float16": "uint16", "float32": "uint32", "float64": "uint64"}[dtype]
    return arr(bits, u).view(dtype)


def typed(values, dtype):
    return farr(values, dtype) if dtype.startswith("float") else arr(values, dtype)


def pyint(v):
    """a python-level integer: weak symbolic scalar on the shim, plain int otherwise"""
    if v is None:
        return None
    if SYMBOLIC and not isinstance(v, (int, bool)):
        return v if isinstance(v, np.SymPy) else np.SymPy(v)
    return int(v)


# ------------------------------------------------------------------ observations
def obs_ragged(x):
    flat = x.ravel()
    lens = x.shape[1] if isinstance(x.shape, tuple) else x.lengths
    return {"k": "ragged", "flat": cells(flat), "lens": cells(lens), "dtype": dtname(flat), "n": len(x)}


def obs_array(a):
    if hasattr(a, "shape") and len(getattr(a, "shape", ())) == 0 and not hasattr(a, "_cells") and not isinstance(a, np.ndarray):
        return obs_scalar(a)
    if not hasattr(a, "dtype"):
        return obs_scalar(a)
    if len(a.shape) == 0:
        return obs_scalar(a)
    return {"k": "array", "flat": cells(a), "shape": [int(s) for s in a.shape], "dtype": dtname(a)}


def obs_scalar(v):
    if SYMBOLIC and isinstance(v, np.SymPy):
        return {"k": "scalar", "val": v.val, "dtype": "py"}
    if hasattr(v, "dtype"):
        c = cells(v)
        if getattr(v, "weak", False):
            return {"k": "scalar", "val": c[0], "dtype": "py"}
        return {"k": "scalar", "val": c[0], "dtype": dtname(v)}
    if isinstance(v, bool):
        return {"k": "scalar", "val": v, "dtype": "pybool"}
    if isinstance(v, int):
        return {"k": "scalar", "val": v, "dtype": "pyint"}
    if isinstance(v, float):
        return {"k": "scalar", "val": v, "dtype": "pyfloat"}
    return {"k": "scalar", "val": v, "dtype": "z3"}


def obs_any(x):
    if x is None:
        return {"k": "none"}
    if isinstance(x, dict) and "k" in x:
        return x
    if isinstance(x, (tuple, list)):
        return {"k": "tuple", "items": [obs_any(i) for i in x]}
    if hasattr(x, "_shape") and hasattr(x, "ravel") and hasattr(x, "is_contigous"):
        return obs_ragged(x)
    return obs_array(x)


def outcome(fn, *a, **k):
    """run fn; an Exception raised by the code under test is an outcome, not an error"""
    try:
        return obs_any(fn(*a, **k))
    except Exception as ex:  # noqa: BLE001  (executor control exceptions derive from BaseException)
        return {"k": "raise", "exc": type(ex).__name__, "msg": str(ex)[:120]}


def refused(exc="*"):
    return {"k": "raise", "exc": exc}


_INT_BITS = {"int8": 8, "int16": 16, "int32": 32, "int64": 64, "uint8": 8, "uint16": 16, "uint32": 32, "uint64": 64}


def _norm_val(v, dt):
    if isinstance(v, bool):
        if dt in _INT_BITS:
            return int(v)
        return v
    if isinstance(v, int):
        if dt == "bool":
            return bool(v)
        if dt in _INT_BITS:
            b = _INT_BITS[dt]
            v %= 1 << b
            if not dt.startswith("u") and v >= 1 << (b - 1):
                v -= 1 << b
        return v
    if isinstance(v, float):
        if v != v:
            return "nan"
        if dt in _INT_BITS and v == int(v):
            return int(v)
        return v
    return v


def norm_obs(o):
    """canonical JSON form of an observation (ints reduced modulo the dtype, floats NaN-canonical)"""
    if not isinstance(o, dict):
        return o
    k = o.get("k")
    if k in ("ragged", "array"):
        out = dict(o)
        out["flat"] = [_norm_val(v, o["dtype"]) for v in o["flat"]]
        if k == "ragged":
            out["lens"] = [int(v) for v in o["lens"]]
            out.pop("n", None)
        return out
    if k == "scalar":
        out = dict(o)
        out["val"] = _norm_val(o["val"], o["dtype"])
        if o["dtype"] in ("pyint", "pybool", "pyfloat"):
            out["dtype"] = "py"
        return out
    if k == "tuple":
        return {"k": "tuple", "items": [norm_obs(i) for i in o["items"]]}
    if k == "raise":
        return {"k": "raise", "exc": o["exc"]}
    return o


def _float_canon(bits, dt):
    """bit pattern -> value under float equality (NaN canonical, -0.0 == +0.0)"""
    import struct
    if not isinstance(bits, int) or isinstance(bits, bool):
        return bits
    fmt = {"float16": ("<e", "<H"), "float32": ("<f", "<I"), "float64": ("<d", "<Q")}[dt]
    x = struct.unpack(fmt[0], struct.pack(fmt[1], bits % (1 << (8 * struct.calcsize(fmt[1])))))[0]
    if x != x:
        return "nan"
    return x + 0.0 if x != 0 else 0.0


def obs_equal(got, exp, strict_exc=False, dtype_matters=True, float_eq=False):
    """does the observed outcome `got` satisfy the expected outcome `exp`?"""
    g, e = norm_obs(got), norm_obs(exp)
    if float_eq and isinstance(g, dict) and isinstance(e, dict):
        for o in (g, e):
            if str(o.get("dtype", "")).startswith("float"):
                if "flat" in o:
                    o["flat"] = [_float_canon(v, o["dtype"]) for v in o["flat"]]
                if "val" in o:
                    o["val"] = _float_canon(o["val"], o["dtype"])
    if not isinstance(g, dict) or not isinstance(e, dict):
        return g == e
    if e.get("k") == "any":
        return True
    if g.get("k") != e.get("k"):
        return False
    if g["k"] == "raise":
        return e["exc"] == "*" or g["exc"] == "*" or (g["exc"] == e["exc"]) or not strict_exc
    if g["k"] == "tuple":
        return len(g["items"]) == len(e["items"]) and all(obs_equal(a, b, strict_exc, dtype_matters, float_eq) for a, b in zip(g["items"], e["items"]))
    if not dtype_matters or e.get("dtype") == "*" or g.get("dtype") == "*":
        g = {k: v for k, v in g.items() if k != "dtype"}
        e = {k: v for k, v in e.items() if k != "dtype"}
        if "flat" in g:
            g["flat"] = [int(v) if isinstance(v, bool) else v for v in g["flat"]]
            e["flat"] = [int(v) if isinstance(v, bool) else v for v in e["flat"]]
        if "val" in g:
            g["val"] = int(g["val"]) if isinstance(g["val"], bool) else g["val"]
            e["val"] = int(e["val"]) if isinstance(e["val"], bool) else e["val"]
    if "val" in g and "val" in e and (g["val"] == "?" or e["val"] == "?"):
        g.pop("val"); e.pop("val")
    if "flat" in g and "flat" in e:
        gf, ef = g.pop("flat"), e.pop("flat")
        if len(gf) != len(ef):
            return False
        for a, b in zip(gf, ef):
            if b == "?" or a == "?":
                continue
            if a != b:
                return False
    return g == e


# ------------------------------------------------------------------ reference model pieces (plain python)
def rows_of(flat, lens):
    out, p = [], 0
    for n in lens:
        out.append(list(flat[p:p + n]))
        p += n
    return out


def ref_ragged(rows, dtype):
    return {"k": "ragged", "flat": [c for r in rows for c in r], "lens": [len(r) for r in rows], "dtype": dtype}


def ref_array(flat, shape, dtype):
    return {"k": "array", "flat": list(flat), "shape": list(shape), "dtype": dtype}


def ref_scalar(v, dtype):
    return {"k": "scalar", "val": v, "dtype": dtype}
