"""C15 -- indexing a run-length array equals indexing the dense array.

The dense array is the harness input (64-bit vectors; run layout arises from symbolic cell equalities).  Index kinds:
  int (negative allowed; out of range must be refused) | list / array of ints | dense bool mask | run-length bool mask
  | slice with symbolic / absent start and stop in +-B and step in +-{1,2,3} | start/stop vectors (one window per pair).
Results are decoded (to_array) and compared with the same index on the dense array; RunLengthArray results must be canonical.
"""
import numpy as np
from . import common, c14
from .common import harness, outcome, typed, arr, pyint, cells, obs_any


def decode(x):
    from npstructures import RunLengthArray, RunLengthRaggedArray
    if isinstance(x, RunLengthRaggedArray):
        return ("rlra", x.to_array())
    if isinstance(x, RunLengthArray):
        return ("rla", x.to_array(), x._events, x._values)
    return ("plain", x)


def run(c, p):
    from npstructures import RunLengthArray
    rla = RunLengthArray.from_array(typed(c["vals"], p.get("dtype", "int64")))
    ix = p["ix"]
    if ix == "int":
        return decode(rla[pyint(c["i"])])
    if ix == "list":
        return decode(rla[[pyint(i) for i in c["idx"]]])
    if ix == "array":
        return decode(rla[arr(c["idx"], "int64")])
    if ix == "mask":
        if p.get("aslist"):
            return decode(rla[[common.pyval(m) for m in c["mask"]]])          # a plain Python list of bools is a mask too
        return decode(rla[arr(c["mask"], "bool")])
    if ix == "rlmask":
        return decode(rla[RunLengthArray.from_array(arr(c["mask"], "bool"))])
    if ix == "rlmask_ufunc":
        # a run-length mask produced by a comparison keeps the *data's* run boundaries: adjacent runs may carry the same truth value
        m = RunLengthArray.from_array(typed(c["mvals"], "int64")) > 0
        return decode(rla[m])
    if ix == "slice":
        return decode(rla[slice(pyint(c["a"]), pyint(c["b"]), c["s"])])
    if ix == "windows":
        return decode(rla[arr(c["starts"], "int64"):arr(c["stops"], "int64")])
    if ix == "ellipsis":
        return decode(rla[...])
    if ix == "slice_then_all":
        rla[slice(pyint(c["a"]), pyint(c["b"]), c["s"])]          # an index expression leaves the indexed array as it was
        rla[slice(pyint(c["a"]), pyint(c["b"]), c["s"])]
        return decode(rla[...])
    raise ValueError(ix)


def sym(E, p, kf):
    import z3
    from symx import specs
    n = E.concretize(E.int("n", 1, p["n"]))
    DT = p.get("dtype", "int64")
    vals = [E.bv(f"v{i}", c14.BITS[DT]) for i in range(n)]
    if DT.startswith("float"):
        for v in vals:
            E.assume(z3.Not(z3.fpIsNaN(np._to_fp(v, np.dtype(DT)))))      # NaN never equals itself: runs of NaN are outside the canonical-form claim
    B = n + 2
    ix = p["ix"]
    c = dict(vals=vals)
    if ix == "int":
        c["i"] = E.int("i", -B, B)
    elif ix in ("list", "array"):
        m = E.concretize(E.int("m", 1, p["m"]))
        c["idx"] = [E.int(f"i{j}", -n, n - 1) for j in range(m)]
    elif ix == "rlmask_ufunc":
        c["mvals"] = [E.bv(f"w{i}", 64) for i in range(n)]
        c["mask"] = [w > 0 for w in c["mvals"]]
    elif ix in ("mask", "rlmask"):
        c["mask"] = [E.bool(f"m{i}") for i in range(n)]
    elif ix in ("slice", "slice_then_all"):
        pres = E.choose("pres", [(0, 0), (1, 0), (0, 1), (1, 1)])
        c["a"] = E.int("a", -B, B) if pres[0] else None
        c["b"] = E.int("b", -B, B) if pres[1] else None
        c["s"] = p["s"]
        if "KF-C15-1" in kf:
            for t in (c["a"], c["b"]):
                if t is not None:
                    E.assume(z3.And(t >= -n, t <= n))
    elif ix == "windows":
        k = E.concretize(E.int("k", 1, p["k"]))
        c["starts"] = [E.int(f"s{j}", 0, n - 1) for j in range(k)]
        c["stops"] = [E.int(f"e{j}", 1, n) for j in range(k)]
        for s, e in zip(c["starts"], c["stops"]):
            E.assume(s < e)
    got = outcome(lambda: run(c, p))
    case = dict(p=p, c=c)
    V = specs.store_of(vals)
    r = _sym2(E, p, c, got, n, vals, V)
    r["got"] = _strip(got)
    r["case"] = case
    return r


def _strip(g, canonical=True):
    # the decoded content is what is compared with a concrete run; the canonical-form verdict on events/values is carried as one flag
    # (judged by the solver-side invariants on the symbolic side, recomputed from the real events/values at replay)
    if g["k"] == "tuple":
        return dict(k="tuple", items=g["items"][:2] + [dict(k="scalar", val=canonical, dtype="py")])
    return g


def _canonical_concrete(g, need_distinct):
    """canonical-form check on a concrete decode() observation: events 0 = e0 < e1 < ... = len, (adjacent values differ)"""
    if g["k"] != "tuple" or len(g["items"]) < 4:
        return True
    dense, ev, vv = g["items"][1], g["items"][2]["flat"], g["items"][3]["flat"]
    n = dense["shape"][0]
    if n == 0:
        return True
    ok = len(ev) == len(vv) + 1 and ev[0] == 0 and ev[-1] == n and all(a < b for a, b in zip(ev, ev[1:]))
    if need_distinct:
        ok = ok and all(a != b for a, b in zip(vv, vv[1:]))
    return bool(ok)


def _sym2(E, p, c, got, n, vals, V):
    import z3
    from symx import specs
    ix = p["ix"]
    DT = p.get("dtype", "int64")
    case = None
    if ix == "int":
        ok, i = specs.wrap_index(c["i"], n)
        if got["k"] == "raise":
            return dict(goal=z3.Not(ok), got=got, case=case)
        res = got["items"][1]
        if res["k"] == "scalar" and DT != "int64" and res.get("dtype") not in (DT, "z3", "py", None):
            return dict(goal=False, got=got, case=case)          # an element of the array has the array's element type
        return dict(goal=specs.conj([ok, (c14.val_eq(res["val"], z3.Select(V, i), DT) if DT.startswith("float") else specs.eqv(res["val"], z3.Select(V, i))) if res["k"] == "scalar" else False]), got=got, case=case)
    if got["k"] != "tuple":
        return dict(goal=False, got=got, case=case)
    tag = got["items"][0]["val"]
    conds = []
    if ix in ("list", "array"):
        res = got["items"][1]
        exp = [z3.Select(V, z3.If(i < 0, i + n, i)) for i in c["idx"]]
        if DT.startswith("float"):          # float cells by value (one representative per run of equal values)
            conds.append(res["k"] == "array" and res["shape"] == [len(exp)] and res["dtype"] == DT)
            conds += [c14.val_eq(a_, b_, DT) for a_, b_ in zip(res["flat"], exp)] if res["k"] == "array" else []
        else:
            conds.append(specs.obs_goal(res, dict(k="array", flat=exp, shape=[len(exp)], dtype=DT)))
    elif ix in ("mask", "rlmask", "rlmask_ufunc"):
        res = got["items"][1]
        if res["k"] != "array" or len(res["shape"]) != 1:
            return dict(goal=False, got=got, case=case)
        N = res["shape"][0]
        conds.append(specs.count_true(c["mask"]) == N)
        pref = z3.IntVal(0)
        for q in range(n):
            for k in range(N):
                conds.append(z3.Implies(z3.And(c["mask"][q], pref == k), c14.val_eq(res["flat"][k], vals[q], DT) if DT.startswith("float") else specs.eqv(res["flat"][k], vals[q])))
            pref = pref + z3.If(c["mask"][q], 1, 0)
    elif ix == "slice":
        res = got["items"][1]
        first, cnt = specs.py_slice(c["a"], c["b"], c["s"], n)
        if res["k"] != "array" or len(res["shape"]) != 1:
            return dict(goal=False, got=got, case=case)
        N = res["shape"][0]
        conds.append(cnt == N)
        for k in range(N):
            want = z3.Select(V, first + k * c["s"])
            # float cells are compared by value (the encoding keeps one representative of a run of equal values: +0.0 and -0.0 are equal)
            conds.append(c14.val_eq(res["flat"][k], want, DT) if DT.startswith("float") else specs.eqv(res["flat"][k], want))
    elif ix == "windows":
        res = got["items"][1]
        if res["k"] != "ragged":
            return dict(goal=False, got=got, case=case)
        conds += specs.ragged_matches(res["flat"], res["lens"], [e - s for s, e in zip(c["starts"], c["stops"])],
                                      lambda k, col: z3.Select(V, c["starts"][k] + col))
    elif ix in ("ellipsis", "slice_then_all"):
        conds.append(specs.obs_goal(got["items"][1], dict(k="array", flat=vals, shape=[n], dtype=DT)))
    if tag == "rla":
        dense, ev, vv = got["items"][1], got["items"][2], got["items"][3]
        if dense["shape"][0] > 0:
            conds += c14.canon_conds(ev["flat"], vv["flat"], dense["shape"][0], DT, distinct_neighbours=(ix in ("slice",) and c["s"] not in (1, None, -1)) or ix in ("ellipsis", "slice_then_all"))
    return dict(goal=specs.conj(conds), got=got, case=case)


def kf_match(case):
    if "c" not in case or "p" not in case or "ix" not in case["p"]:
        return []
    c, p = case["c"], case["p"]
    n = len(c["vals"])
    if p["ix"] == "slice" and any(t is not None and not -n <= t <= n for t in (c["a"], c["b"])):
        return ["KF-C15-1"]
    return []


def conc(case):
    p, c = case["p"], dict(case["c"])
    DT = p.get("dtype", "int64")
    c["vals"] = c14.signed_vals(c["vals"], DT)
    if "mvals" in c:
        c["mvals"] = c14.signed_vals(c["mvals"], "int64")
    vals, ix = c["vals"], p["ix"]
    n = len(vals)
    got = outcome(lambda: run(c, p))
    A = common.ref_array

    need_distinct = (ix == "slice" and c.get("s") not in (1, None, -1)) or ix in ("ellipsis", "slice_then_all")
    strip = lambda g: _strip(g, _canonical_concrete(g, need_distinct))
    if ix == "int":
        i = c["i"]
        if not -n <= i < n:
            return strip(got), common.refused()
        exp = common.ref_scalar(vals[i], DT)
    elif ix in ("list", "array"):
        exp = A([vals[i] for i in c["idx"]], [len(c["idx"])], DT)
    elif ix == "rlmask_ufunc":
        sel = [v for v, m in zip(vals, c["mvals"]) if m > 0]
        exp = A(sel, [len(sel)], DT)
    elif ix in ("mask", "rlmask"):
        sel = [v for v, m in zip(vals, c["mask"]) if m]
        exp = A(sel, [len(sel)], DT)
    elif ix == "slice":
        sel = vals[slice(c["a"], c["b"], c["s"])]
        exp = A(sel, [len(sel)], DT)
    elif ix == "windows":
        exp = common.ref_ragged([vals[s:e] for s, e in zip(c["starts"], c["stops"])], DT)
    elif ix in ("ellipsis", "slice_then_all"):
        exp = A(vals, [n], DT)
    g = strip(got)
    tagv = g["items"][0] if g["k"] == "tuple" else None
    want = dict(k="tuple", items=[tagv if tagv is not None else dict(k="any"), exp, dict(k="scalar", val=True, dtype="py")])
    return (g, want, {"float_eq": True}) if DT.startswith("float") else (g, want)


def jobs(tier, seed):
    q = tier == "quick"
    n = 4 if q else 5
    out = [dict(ix="int", n=n), dict(ix="list", n=n, m=2 if q else 3), dict(ix="array", n=n, m=2), dict(ix="mask", n=n), dict(ix="mask", n=n, aslist=True), dict(ix="rlmask", n=n), dict(ix="rlmask_ufunc", n=3 if q else 4),
           dict(ix="windows", n=3 if q else 4, k=2), dict(ix="ellipsis", n=n),
           dict(ix="int", n=2, dtype="float16"), dict(ix="list", n=2, m=2, dtype="float16"), dict(ix="mask", n=2, dtype="float16"), dict(ix="int", n=2, dtype="uint64"), dict(ix="list", n=2, m=2, dtype="uint64"),
           dict(ix="slice_then_all", n=3, s=2), dict(ix="slice_then_all", n=3, s=-1), dict(ix="slice_then_all", n=3, s=None)]
    for s in (1, 2, 3, -1, -2, -3) if not q else (1, 2, -1, -2, 3):
        out.append(dict(ix="slice", n=n, s=s))
    return [dict(h="C15.index", p=p) for p in out]


harness("C15.index", jobs, sym, conc)
