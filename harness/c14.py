"""C14 -- run-length encoding is lossless and canonical.

Dense input of length n (forked) over bool / int8 / uint8 / int32 / int64 / uint64 (bit-vectors of the true width) and float16/32/64 (bit
patterns; inequality through FP predicates, so NaN != NaN and -0.0 == +0.0).  Round trip cell by cell under the dtype's own equality,
dtype, len/size/shape, np.asarray; canonical form: events[0]=0, strictly increasing, events[-1]=n, adjacent run values differ.
The canonical-form invariants are re-asserted on the outputs of slicing (C15) and binary ufuncs (C16) through canon_conds().
"""
import numpy as np
from . import common
from .common import harness, outcome, typed, cells, obs_array, obs_scalar

BITS = {"bool": 1, "int8": 8, "uint8": 8, "int16": 16, "uint16": 16, "int32": 32, "uint32": 32, "int64": 64, "uint64": 64, "float16": 16, "float32": 32, "float64": 64}


def gen_vals(E, n, dt, tag="v"):
    if dt == "bool":
        return [E.bool(f"{tag}{i}") for i in range(n)]
    return [E.bv(f"{tag}{i}", BITS[dt]) for i in range(n)]


def signed_vals(vals, dt):
    out = []
    for v in vals:
        if dt.startswith("int") and isinstance(v, int) and not isinstance(v, bool):
            b = BITS[dt]
            v = v - (1 << b) if v >= 1 << (b - 1) else v
        out.append(v)
    return out


def val_eq(a, b, dt):
    """z3: equality of two cells under the dtype's own equality"""
    import z3
    from symx import specs
    if dt.startswith("float"):
        fa, fb = np._to_fp(a, np.dtype(dt)), np._to_fp(b, np.dtype(dt))
        return z3.Or(z3.fpEQ(fa, fb), z3.And(z3.fpIsNaN(fa), z3.fpIsNaN(fb)))
    return specs.eqv(a, b)


def val_ne_strict(a, b, dt):
    """z3: numpy's != on two cells"""
    import z3
    if dt.startswith("float"):
        return z3.Not(z3.fpEQ(np._to_fp(a, np.dtype(dt)), np._to_fp(b, np.dtype(dt))))
    return z3.Not(val_eq(a, b, dt))


def canon_conds(events, values, n, dt, distinct_neighbours=True):
    """canonical-form invariants of a RunLengthArray with the given event / value cells; n = logical length (term or int)"""
    import z3
    from symx import specs
    ev = [specs.I(e) for e in events]
    conds = [len(ev) == len(values) + 1]
    if not ev:
        return [False]
    conds += [ev[0] == 0, ev[-1] == specs.I(n)]
    conds += [ev[i] < ev[i + 1] for i in range(len(ev) - 1)]
    if distinct_neighbours:
        conds += [val_ne_strict(values[i], values[i + 1], dt) for i in range(len(values) - 1)]
    return conds


def observe(rla):
    first = rla.to_array()
    kept = first.copy()
    first[...] = 0          # the decoded array is the caller's: overwriting it must not reach the encoded array (everything below is read afterwards)
    second = np.asarray(rla)
    if second is not rla:
        second[...] = 0          # ... and neither does overwriting what numpy's array conversion returned
    return (kept, np.asarray(rla), len(rla), rla.size, rla.shape[0], rla.dtype == rla.to_array().dtype, rla.starts, rla.ends, rla.values, rla.ndim)


def sym(E, p, kf):
    import z3
    from symx import specs
    from npstructures import RunLengthArray
    dt = p["dtype"]
    n = E.concretize(E.int("n", 1, p["n"]))
    vals = gen_vals(E, n, dt)
    if p.get("aslist"):
        a = [common.pyval(v) for v in vals]
    else:
        a = typed(vals, dt)
    got = outcome(lambda: observe(RunLengthArray.from_array(a)))
    case = dict(p=p, vals=vals)
    if got["k"] != "tuple":
        return dict(goal=False, got=got, case=case)
    it = got["items"]
    dense, asarr, ln, size, shp0, dtok, starts, ends, values, ndim = it
    conds = []
    for o in (dense, asarr):
        if o["k"] != "array" or o["shape"] != [n] or (o["dtype"] != dt and not p.get("aslist")):
            return dict(goal=False, got=got, case=case)
        conds += [val_eq(a_, b_, dt) for a_, b_ in zip(o["flat"], vals)]
    for o in (ln, size, shp0):
        conds.append(specs.eqv(o["val"], n))
    conds.append(specs.eqv(dtok["val"], True))
    conds.append(specs.eqv(ndim["val"], 1))
    ev = list(starts["flat"]) + [ends["flat"][-1]] if ends["flat"] else []
    conds += canon_conds(ev, values["flat"], n, dt)
    conds += [specs.eqv(a_, b_) for a_, b_ in zip(starts["flat"][1:], ends["flat"][:-1])]
    # every run holds the value of the cells it covers
    for k in range(len(values["flat"])):
        for q in range(n):
            conds.append(z3.Implies(z3.And(specs.I(starts["flat"][k]) <= q, q < specs.I(ends["flat"][k])), val_eq(values["flat"][k], vals[q], dt)))
    return dict(goal=specs.conj(conds), got=got, case=case)


def conc(case):
    from npstructures import RunLengthArray
    p, dt = case["p"], case["p"]["dtype"]
    vals = signed_vals(case["vals"], dt)
    a = typed(vals, dt)
    if p.get("aslist"):
        a = a.tolist()
    got = outcome(lambda: observe(RunLengthArray.from_array(a)))
    n = len(vals)
    fa = typed(vals, dt)
    # run boundaries under numpy's != (floats: by value)
    ne = [bool(fa[i] != fa[i + 1]) for i in range(n - 1)]
    starts = [0] + [i + 1 for i, d in enumerate(ne) if d]
    ends = starts[1:] + [n]
    runvals = [vals[s] for s in starts]
    A = common.ref_array
    rdt = dt if not p.get("aslist") else "*"
    exp = [A(vals, [n], rdt), A(vals, [n], rdt), obs_scalar(n), dict(k="scalar", val=n, dtype="*"), dict(k="scalar", val=n, dtype="*"), dict(k="scalar", val=True, dtype="*"),
           A(starts, [len(starts)], "*"), A(ends, [len(ends)], "*"), A(runvals, [len(runvals)], rdt), obs_scalar(1)]
    return got, dict(k="tuple", items=exp), {"float_eq": True, "dtype_matters": not p.get("aslist")}


def jobs(tier, seed):
    q = tier == "quick"
    out = []
    for dt in ("bool", "int8", "uint8", "int32", "int64", "uint64", "float64", "float32", "float16"):
        out.append(dict(dtype=dt, n=4 if q else 6))
    out.append(dict(dtype="int64", n=3, aslist=True))
    return [dict(h="C14.codec", p=p) for p in out]


def sym_step(E, p, kf):
    """canonical form of stepped slices (the C15 slice harness: decoded content + canonical events/values, adjacent values distinct)"""
    from . import c15
    return c15.sym(E, p, kf)


def conc_step(case):
    from . import c15
    return c15.conc(case)


def jobs_step(tier, seed):
    q = tier == "quick"
    out = [dict(h="C14.stepslice", p=dict(ix="slice", n=4 if q else 5, s=s)) for s in ((2, -2, 3) if q else (2, -2, 3, -3))]
    # selections by masks (dense, run-length, run-length from a comparison): canonical result, the empty selection included
    out += [dict(h="C14.stepslice", p=dict(ix=ix, n=3 if q else 4)) for ix in ("mask", "rlmask", "rlmask_ufunc")]
    # float cells (equal infinities, signed zeros): stepped slices still join equal neighbours
    out += [dict(h="C14.stepslice", p=dict(ix="slice", n=4, s=s, dtype="float16")) for s in (2, -2)]
    # ufuncs on two run-length operands (independent, and derived from one array so that they share its boundaries): canonical results
    out += [dict(h="C14.ufunc2", p=dict(kind="rr_shared", op=op, n=3 if q else 4)) for op in ("between", "selfsub", "timesmask")]
    out += [dict(h="C14.ufunc2", p=dict(kind="rr", op=op, n=3)) for op in ("subtract", "less")]
    # concatenation: boundaries of the result start at 0, increase strictly, end at the total length (and it decodes to the concatenation)
    out += [dict(h="C14.ufunc2", p=dict(kind="concat", op="concatenate", n=2, **kw)) for kw in (dict(), dict(dta="int8", dtb="int16"), dict(three=True))]
    return out


harness("C14.codec", jobs, sym, conc)
def sym_uf2(E, p, kf):
    from . import c16
    return c16.sym_wrapped(E, p, kf)


def conc_uf2(case):
    from . import c16
    return c16.conc(case)


harness("C14.stepslice", jobs_step, sym_step, conc_step)
harness("C14.ufunc2", lambda t, s: [], sym_uf2, conc_uf2)
