import numpy as np


def _tolist(x):
    if hasattr(x, "tolist") and not isinstance(x, (list, tuple)):
        return x.tolist()
    if isinstance(x, (list, tuple)):
        return [_tolist(i) for i in x]
    return x


def assert_equal(a, b, *args, **kw):
    la, lb = _tolist(a), _tolist(b)
    if isinstance(la, tuple): la = list(la)
    if isinstance(lb, tuple): lb = list(lb)
    assert la == lb, (la, lb)


assert_array_equal = assert_equal


def assert_allclose(a, b, *args, **kw):
    assert np.allclose(a, b), (a, b)


assert_array_almost_equal = assert_allclose
