ArrayLike = object
DTypeLike = object
NDArray = object
