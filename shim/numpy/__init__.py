"""Symbolic numpy ("shim"): concrete shapes, python-or-z3 elements, shared-store views (DESIGN.md 3.2).
Implements only the numpy API that /repo/npstructures uses; anything else raises ShimUnsupported.
"""
import builtins
import itertools
import numbers
import z3
from symx import engine as _eng

newaxis = None
_py_all, _py_any, _py_sum, _py_max, _py_min, _py_abs = all, any, sum, max, min, abs


class ShimUnsupported(BaseException):
    pass


def E():
    e = _eng.current()
    if e is None:
        e = _eng.Engine()
        _eng.set_current(e)
    return e


def is_sym(v):
    return isinstance(v, z3.ExprRef)


# ------------------------------------------------------------------ dtypes / scalar types
def _binop(uf_name, reflected=False):
    def f(self, other):
        uf = globals()[uf_name]
        if isinstance(other, (list, tuple)):
            other = asarray(other)
        if not isinstance(other, (generic, SymPy, ndarray, int, float, bool)) and not is_sym(other):
            # defer to other's __array_ufunc__ if present
            if hasattr(other, "__array_ufunc__"):
                if getattr(other, "__array_ufunc__") is None:
                    return NotImplemented
                return uf(other, self) if reflected else uf(self, other)
            return NotImplemented
        return uf(other, self) if reflected else uf(self, other)
    return f


def _unop(uf_name):
    def f(self):
        return globals()[uf_name](self)
    return f


_OPS = {
    "__add__": "add", "__sub__": "subtract", "__mul__": "multiply", "__floordiv__": "floor_divide",
    "__truediv__": "true_divide", "__mod__": "remainder", "__and__": "bitwise_and", "__or__": "bitwise_or",
    "__xor__": "bitwise_xor", "__lshift__": "left_shift", "__rshift__": "right_shift", "__lt__": "less",
    "__le__": "less_equal", "__gt__": "greater", "__ge__": "greater_equal", "__eq__": "equal", "__ne__": "not_equal",
    "__pow__": "power",
}


class _OpsMixin:
    pass


for _n, _u in _OPS.items():
    setattr(_OpsMixin, _n, _binop(_u))
    if _n not in ("__lt__", "__le__", "__gt__", "__ge__", "__eq__", "__ne__"):
        setattr(_OpsMixin, "__r" + _n[2:], _binop(_u, reflected=True))
_OpsMixin.__neg__ = _unop("negative")
_OpsMixin.__abs__ = _unop("absolute")
_OpsMixin.__invert__ = _unop("invert")
_OpsMixin.__pos__ = lambda self: self



class _ScalarMeta(type):
    def __eq__(cls, other):
        if isinstance(other, dtype):
            return other == cls
        return type.__eq__(cls, other)

    def __hash__(cls):
        return type.__hash__(cls)


class generic(_OpsMixin, metaclass=_ScalarMeta):
    """numpy scalar (also used for python-level symbolic ints with weak=True)."""
    _dt = None
    __array_priority__ = -1000000.0
    ndim = 0
    shape = ()
    size = 1

    def __new__(cls, val=0, _dt=None, weak=False):
        if isinstance(val, ndarray) and val.ndim > 0:
            return val.astype(cls._dt)
        if isinstance(val, SymPy):
            src = val._pdt
            val = _cast(val.val, src, _dt or cls._dt)
        if weak and is_sym(val):
            return SymPy(val, _dt or cls._dt)
        self = object.__new__(cls)
        if isinstance(val, (generic, ndarray)):
            src = val.dtype
            val = val.val if isinstance(val, generic) else val._cells()[0]
            val = _cast(val, src, _dt or cls._dt)
        elif not is_sym(val):
            val = _cast(val, _pydt(val), _dt or cls._dt)
        self.val = val
        self.dtype = _dt or cls._dt
        self.weak = weak
        return self

    # conversions
    def item(self):
        if is_sym(self.val):
            # a python-level scalar with symbolic value: stays symbolic, concretised only on int()/bool()
            return SymPy(self.val, self.dtype)
        return _concrete(self.val, self.dtype)

    def __int__(self):
        return int(_concrete(self.val, self.dtype))

    __index__ = __int__

    def __float__(self):
        return float(_concrete(self.val, self.dtype))

    def __bool__(self):
        return _truth(self.val)

    def __repr__(self):
        return f"{self.dtype.name}({self.val})"

    def ravel(self):
        return array([self], dtype=self.dtype)

    def astype(self, dt):
        dt = dtype(dt)
        return dt.type(_cast(self.val, self.dtype, dt), _dt=dt)

    def view(self, dt):
        return array(self).view(dt)[0]

    def tolist(self):
        return self.item()

    def __getitem__(self, k):
        return asarray(self)[k]

    def __array_ufunc_operand__(self):
        return self


generic.__hash__ = lambda self: hash(self.item())


class number(generic): pass
class integer(number): pass
class signedinteger(integer): pass
class unsignedinteger(integer): pass
class inexact(number): pass
class floating(inexact): pass
class bool_(generic): pass
class object_(generic): pass


numbers.Integral.register(integer)
numbers.Real.register(floating)


class SymPy(_OpsMixin):
    """A python-level scalar (int or bool) with a symbolic value.  Unlike numpy scalars it has no dtype/shape
    attributes (repo code distinguishes python numbers from numpy objects with hasattr(x, "dtype")); in ufuncs it
    is a *weak* operand (NEP 50).  int()/bool()/index use fork through the executor."""
    weak = True
    __array_priority__ = -1000000.0

    def __init__(self, val, pdt=None):
        self.val = val
        self._pdt = pdt if pdt is not None else (_BOOL if (is_sym(val) and z3.is_bool(val)) or isinstance(val, builtins.bool) else _I64)

    def __int__(self):
        return int(_concrete(self.val, self._pdt))

    __index__ = __int__

    def __float__(self):
        return float(_concrete(self.val, self._pdt))

    def __bool__(self):
        return _truth(self.val)

    def __hash__(self):
        return hash(_concrete(self.val, self._pdt))

    def __repr__(self):
        return f"SymPy({self.val})"


numbers.Integral.register(SymPy)


def _mkpy(val, dt):
    """python-level result value: plain python value when concrete, SymPy when symbolic"""
    if is_sym(val):
        return SymPy(val, _BOOL if z3.is_bool(val) else dt if dt.kind in "iub" else dt)
    return val


class dtype:
    _reg = {}
    __slots__ = ("name", "kind", "itemsize", "type")

    def __new__(cls, spec=None, _mk=None):
        if _mk is not None:
            self = object.__new__(cls)
            self.name, self.kind, self.itemsize, self.type = _mk
            return self
        if isinstance(spec, dtype):
            return spec
        if spec is None:
            return cls._reg["float64"]
        if isinstance(spec, str):
            spec = {"int": "int64", "float": "float64", "bool": "bool", "uint": "uint64"}.get(spec, spec)
            return cls._reg[spec]
        if spec is builtins.int:
            return cls._reg["int64"]
        if spec is builtins.float:
            return cls._reg["float64"]
        if spec is builtins.bool:
            return cls._reg["bool"]
        if isinstance(spec, type) and issubclass(spec, generic) and spec._dt is not None:
            return spec._dt
        if hasattr(spec, "dtype"):
            return dtype(spec.dtype)
        raise TypeError(f"dtype({spec!r})")

    def __eq__(self, other):
        try:
            return dtype(other) is self
        except (TypeError, KeyError):
            return False

    def __ne__(self, other):
        return not self == other

    def __hash__(self):
        return hash(self.name)

    def __repr__(self):
        return f"dtype('{self.name}')"

    __str__ = lambda self: self.name

    @property
    def bits(self):
        return self.itemsize * 8


def _mk(name, kind, size, base):
    cls = _ScalarMeta(name, (base,), {})
    dt = dtype(_mk=(name, kind, size, cls))
    cls._dt = dt
    dtype._reg[name] = dt
    return cls


int8 = _mk("int8", "i", 1, signedinteger); int16 = _mk("int16", "i", 2, signedinteger)
int32 = _mk("int32", "i", 4, signedinteger); int64 = _mk("int64", "i", 8, signedinteger)
uint8 = _mk("uint8", "u", 1, unsignedinteger); uint16 = _mk("uint16", "u", 2, unsignedinteger)
uint32 = _mk("uint32", "u", 4, unsignedinteger); uint64 = _mk("uint64", "u", 8, unsignedinteger)
float16 = _mk("float16", "f", 2, floating); float32 = _mk("float32", "f", 4, floating)
float64 = _mk("float64", "f", 8, floating)
bool_ = _mk("bool", "b", 1, bool_)
object_ = _mk("object", "O", 8, object_)
_BOOL, _I64, _F64 = bool_._dt, int64._dt, float64._dt
intp = int64


def _pydt(v):
    if isinstance(v, builtins.bool):
        return _BOOL
    if isinstance(v, builtins.int):
        return _I64
    if isinstance(v, builtins.float):
        return _F64
    if is_sym(v):
        if z3.is_bool(v):
            return _BOOL
        return _I64
    return object_._dt


def issubdtype(a, b):
    if isinstance(b, type) and issubclass(b, generic):
        bcls = b
    elif b is builtins.bool:
        bcls = bool_
    elif b is builtins.int:
        bcls = signedinteger
    elif b is builtins.float:
        bcls = floating
    else:
        bcls = dtype(b).type
    if isinstance(a, type) and issubclass(a, generic):
        acls = a
    else:
        acls = dtype(a).type
    return issubclass(acls, bcls)


# ------------------------------------------------------------------ value-level helpers
def _concrete(v, dt):
    if is_sym(v):
        e = E()
        if z3.is_bool(v):
            return e.branch(v)
        x = e.concretize(v)
        if z3.is_bv(v) and dt.kind == "i" and x >= 1 << (v.size() - 1):
            x -= 1 << v.size()
        return x
    return v


def _truth(v):
    if is_sym(v):
        if z3.is_bool(v):
            return E().branch(v)
        if z3.is_bv(v):
            return E().branch(v != 0)
        return E().branch(v != 0)
    return builtins.bool(v)


def _wrap_int(v, dt):
    if dt.kind == "u":
        return v % (1 << dt.bits)
    if dt.kind == "i":
        m = 1 << dt.bits
        v %= m
        return v - m if v >= m >> 1 else v
    return v


def _as_bool_term(v):
    if is_sym(v):
        if z3.is_bool(v):
            return v
        return v != 0
    return builtins.bool(v)


def _int_to_bv_try(t, w):
    """exact conversion of an Int term that is a numeral or an if-then-else tree of numerals; None otherwise"""
    t = z3.simplify(t)
    if z3.is_int_value(t):
        return z3.BitVecVal(t.as_long(), w)
    if z3.is_app(t) and t.decl().kind() == z3.Z3_OP_ITE:
        a, b = _int_to_bv_try(t.arg(1), w), _int_to_bv_try(t.arg(2), w)
        if a is not None and b is not None:
            return z3.If(t.arg(0), a, b)
    return None


def _to_bv(v, dt, partner=None):
    """value of integer dtype dt -> z3 BV of dt.bits.  Int-represented values become bit patterns through the uninterpreted
    bijection (DESIGN 3.3) unless they are small known values or meet genuine bit-vector data (`partner`), where the conversion is exact."""
    E().has_bv = True
    if is_sym(v):
        if z3.is_bv(v):
            assert v.size() == dt.bits, (v, dt)
            return v
        if z3.is_bool(v):
            return z3.If(v, z3.BitVecVal(1, dt.bits), z3.BitVecVal(0, dt.bits))
        ex = _int_to_bv_try(v, dt.bits)
        if ex is not None:
            return ex
        if partner is not None and is_sym(partner) and z3.is_bv(partner) and not _is_bits_term(partner):
            return z3.Int2BV(v, dt.bits)
        return _bits(v, dt.bits)
    _const_axiom(int(v), dt.bits)
    return z3.BitVecVal(int(v), dt.bits)


def _const_axiom(c, w):
    """exact value of the bit-pattern bijection on a concrete constant"""
    e = E()
    if e is None or not hasattr(e, "bits_reg"):
        return
    seen = e.bits_reg.setdefault(("consts", w), set())
    if c in seen:
        return
    seen.add(c)
    if e.bits_reg.get(("active", w)):
        f, g = _bits_funcs(w)
        e.add(f(z3.IntVal(c)) == z3.BitVecVal(c, w))
        e.add(g(z3.BitVecVal(c, w)) == c)


def _bits_funcs(w):
    return (z3.Function("bits%d" % w, z3.IntSort(), z3.BitVecSort(w)), z3.Function("unbits%d" % w, z3.BitVecSort(w), z3.IntSort()))


def _bits(v, w):
    """Int-rep value -> its w-bit pattern, as an uninterpreted injection (ground inverse axiom added to the path)."""
    e = E()
    e.has_bv = True
    reg = e.bits_reg
    f, g = _bits_funcs(w)
    if z3.is_app(v) and v.decl().name() == "unbits%d" % w:
        return v.arg(0)
    if not reg.get(("active", w)):
        reg[("active", w)] = True
        for c in list(reg.get(("consts", w), ())) + [0, 1]:
            e.add(f(z3.IntVal(c)) == z3.BitVecVal(c, w))
            e.add(g(z3.BitVecVal(c, w)) == c)
    key = (w, v.get_id())
    if key not in reg:
        reg[key] = v
        e.add(g(f(v)) == v)
        e.add((f(v) == z3.BitVecVal(0, w)) == (v == 0))
    return f(v)


def _bv_to_int(c):
    """numeric value of a BV cell that originated from Int-rep data (inverse of _bits)."""
    w = c.size()
    c = z3.simplify(c)
    if z3.is_bv_value(c):
        return z3.IntVal(c.as_long())
    if z3.is_app(c) and c.decl().name() == "bits%d" % w:
        return c.arg(0)
    if z3.is_app(c) and c.decl().kind() == z3.Z3_OP_ITE:
        return z3.If(c.arg(0), _bv_to_int(c.arg(1)), _bv_to_int(c.arg(2)))
    if not _contains_bits(c):
        return z3.BV2Int(c, is_signed=True)      # genuine bit-vector data: exact numeric value (two's complement)
    f, g = _bits_funcs(w)
    E().add(f(g(c)) == c)
    return g(c)


def _unbits(t, w):
    t = z3.simplify(t)
    if z3.is_bv_value(t):
        return None
    return _bits_funcs(w)[1](t)


EXACT32 = [False]          # set by harnesses whose symbolic integers leave the 32-bit range: narrowing to a 32-bit type then wraps exactly too


def _cast(v, src, dst):
    if src is dst or src == dst or dst.kind == 'O':
        return v
    if dst.kind == "b":
        return _as_bool_term(v) if is_sym(v) else builtins.bool(v)
    if dst.kind in "iu":
        if src.kind == "b":
            if is_sym(v):
                return z3.If(v, 1, 0)
            return int(v)
        if src.kind in "iu":
            if is_sym(v):
                if z3.is_bv(v) and dst.bits != v.size() and _is_bits_term(v):
                    return _bv_to_int(v)        # a bit pattern of an Int-represented value: widen/narrow numerically (in range by the harness bounds)
                if z3.is_bv(v):
                    if dst.bits == v.size():
                        return v
                    if dst.bits < v.size():
                        return z3.Extract(dst.bits - 1, 0, v)
                    return z3.SignExt(dst.bits - v.size(), v) if src.kind == "i" else z3.ZeroExt(dst.bits - v.size(), v)
                # Int rep.  Narrowing to an 8/16-bit type wraps exactly (modular arithmetic on the integer); 32/64-bit targets are the
                # index dtypes: in range by the harness bounds (unsigned<-signed of a negative 64-bit value is not modelled)
                if dst.bits == 64 and src.bits == 64 and src.kind != dst.kind and z3.is_int(v):
                    # the same 64 bits read with the other signedness
                    return z3.If(v < 0, v + (1 << 64), v) if dst.kind == "u" else z3.If(v >= (1 << 63), v - (1 << 64), v)
                if (dst.bits <= 16 or (dst.bits == 32 and EXACT32[0])) and (src.bits > dst.bits or src.kind != dst.kind) and z3.is_int(v):
                    m = 1 << dst.bits
                    return (v % m) if dst.kind == "u" else ((v + (m >> 1)) % m) - (m >> 1)
                return v
            return _wrap_int(int(v), dst)
        if src.kind == "f":
            if is_sym(v):
                return _fp_to_int(v, src, dst)
            return _wrap_int(int(v), dst)
    if dst.kind == "f":
        if is_sym(v):
            if src.kind == "f" and src.itemsize == dst.itemsize:
                return v
            return _to_float_bits(v, src, dst)
        if src.kind == "f" and src.itemsize > dst.itemsize:
            return _round_float(float(v), dst)
        return float(v)
    if v is None and dst.kind in "iufb":
        raise TypeError("int() argument must be a string, a bytes-like object or a real number, not 'NoneType'")     # as numpy does
    raise ShimUnsupported(f"cast {src}->{dst}")


def _float_bits(x, dt):
    import struct
    fmt = {2: ("<e", "<H"), 4: ("<f", "<I"), 8: ("<d", "<Q")}[dt.itemsize]
    return z3.BitVecVal(struct.unpack(fmt[1], struct.pack(fmt[0], x))[0], dt.bits)


def _round_float(x, dt):
    """round a python double to the precision of dt (as a python float)"""
    import struct
    if dt.itemsize == 8:
        return x
    fmt = {2: "<e", 4: "<f"}[dt.itemsize]
    try:
        return struct.unpack(fmt, struct.pack(fmt, x))[0]
    except OverflowError:
        return float("inf") if x > 0 else float("-inf")


def _to_float_bits(v, src, dst):
    """exact conversion of a symbolic bool / integer / float cell to the bit pattern of its float value (IEEE, round to nearest even)"""
    e = E()
    e.has_bv = True
    srt = _FPS[dst.itemsize]
    if z3.is_bool(v):
        return z3.If(v, _float_bits(1.0, dst), _float_bits(0.0, dst))
    if z3.is_int(v):
        sv = e.simp(v)
        if z3.is_int_value(sv):
            return _round_float(float(sv.as_long()), dst)        # decided on this path: a concrete float
    if src.kind == "f":
        r = z3.fpFPToFP(z3.RNE(), _to_fp(v, src), srt)
    elif z3.is_bv(v) and _is_bits_term(v):
        r = z3.fpRealToFP(z3.RNE(), z3.ToReal(_bv_to_int(v)), srt)
    elif z3.is_bv(v):
        r = z3.fpSignedToFP(z3.RNE(), v, srt) if src.kind == "i" else z3.fpUnsignedToFP(z3.RNE(), v, srt)
    else:
        # Int-represented (bounded) integer: its float value is carried as an uninterpreted conversion of the integer, so that sums and
        # products of such values stay integer arithmetic (exact below 2^53) and only a final division is abstract (DESIGN 3.3)
        out = z3.Function("uf_i2f%d" % dst.bits, z3.IntSort(), z3.BitVecSort(dst.bits))(v)
        e.notes.setdefault("i2f", {})[out.get_id()] = (out, v, src)
        return out
    out = z3.fpToIEEEBV(r)
    if src.kind in "iu":
        e.notes.setdefault("i2f", {})[out.get_id()] = (out, v, src)      # for the exact int -> float -> int round trip
    return out


def _fp_to_int(v, src, dst):
    memo = E().notes.get("i2f", {}).get(v.get_id())
    if memo is not None and memo[0].eq(v):
        # int -> float -> int round trip: exact for |x| < 2^53 (the harness bounds keep index-like values far below)
        return _cast(memo[1], memo[2], dst)
    if z3.is_app(v) and v.decl().kind() == z3.Z3_OP_ITE:
        return z3.If(v.arg(0), _lift(_fp_to_int(v.arg(1), src, dst)), _lift(_fp_to_int(v.arg(2), src, dst)))
    fp = _to_fp(v, src)
    return z3.fpToSBV(z3.RTZ(), fp, z3.BitVecSort(dst.bits)) if dst.kind == "i" else z3.fpToUBV(z3.RTZ(), fp, z3.BitVecSort(dst.bits))


def _exact_int_of(v):
    if not is_sym(v):
        f = float(v)
        return int(f) if f == f and f not in (float("inf"), float("-inf")) and f.is_integer() and builtins.abs(f) < 2 ** 53 else None
    memo = E().notes.get("i2f", {}).get(v.get_id())
    if memo is not None and memo[0].eq(v) and z3.is_int(memo[1]):
        return memo[1]
    if z3.is_app(v) and v.decl().kind() == z3.Z3_OP_ITE:
        a, b = _exact_int_of(v.arg(1)), _exact_int_of(v.arg(2))
        if a is not None and b is not None:
            return z3.If(v.arg(0), _lift(a), _lift(b))
    if z3.is_bv_value(v):
        import struct
        fmt = {16: ("<e", "<H"), 32: ("<f", "<I"), 64: ("<d", "<Q")}[v.size()]
        return _exact_int_of(struct.unpack(fmt[0], struct.pack(fmt[1], v.as_long()))[0])
    return None


def _fp_apply(n, vals, dt):
    """float arithmetic, IEEE-exact (round to nearest even): cells are bit patterns (symbolic) or python floats (concrete)"""
    if _py_all(not is_sym(v) for v in vals):
        a = float(vals[0])
        b = float(vals[1]) if len(vals) > 1 else None
        try:
            r = {"add": lambda: a + b, "subtract": lambda: a - b, "multiply": lambda: a * b,
                 "true_divide": lambda: (a / b if b != 0 else (float("nan") if a == 0 or a != a else float("inf") * (1 if (a > 0) == (str(b)[0] != "-") else -1))),
                 "negative": lambda: -a, "absolute": lambda: builtins.abs(a), "maximum": lambda: (a if a >= b or a != a else b),
                 "minimum": lambda: (a if a <= b or a != a else b),
                 "fmax": lambda: (b if a != a else a if b != b else (a if a >= b else b)), "fmin": lambda: (b if a != a else a if b != b else (a if a <= b else b))}[n]()
        except OverflowError:
            r = float("inf")
        return _round_float(r, dt)
    if n in ("add", "subtract", "multiply") and dt.itemsize == 8:
        # both operands are exact conversions of (Int-represented, bounded) integers: the float result is the conversion of the integer
        # result (exact below 2^53; the harness bounds keep such values far below)
        xs = [_exact_int_of(v) for v in vals]
        if _py_all(x is not None for x in xs):
            r = _arith({"add": "add", "subtract": "sub", "multiply": "mul"}[n], xs[0], xs[1])
            return _to_float_bits(r, _I64, dt) if is_sym(r) else float(r)
    if n == "true_divide" and dt.itemsize == 8:
        xs = [_exact_int_of(v) for v in vals]
        if _py_all(x is not None for x in xs) and _py_any(is_sym(x) for x in xs):
            # quotient of two exact integers: numpy's float division, abstracted as an uninterpreted function of the two integers
            return z3.Function("uf_idiv_f64", z3.IntSort(), z3.IntSort(), z3.BitVecSort(64))(_lift(xs[0]), _lift(xs[1]))
    E().has_bv = True
    fps = [_to_fp(v, dt) for v in vals]
    rm = z3.RNE()
    if n == "add":
        r = z3.fpAdd(rm, fps[0], fps[1])
    elif n == "subtract":
        r = z3.fpSub(rm, fps[0], fps[1])
    elif n == "multiply":
        r = z3.fpMul(rm, fps[0], fps[1])
    elif n == "true_divide":
        r = z3.fpDiv(rm, fps[0], fps[1])
    elif n == "negative":
        r = z3.fpNeg(fps[0])
    elif n == "absolute":
        r = z3.fpAbs(fps[0])
    elif n == "maximum":
        r = z3.If(z3.Or(z3.fpIsNaN(fps[0]), z3.fpGEQ(fps[0], fps[1])), fps[0], fps[1])
    elif n == "minimum":
        r = z3.If(z3.Or(z3.fpIsNaN(fps[0]), z3.fpLEQ(fps[0], fps[1])), fps[0], fps[1])
    elif n in ("fmax", "fmin"):          # like maximum / minimum, but a NaN operand is ignored
        pick = z3.fpGEQ(fps[0], fps[1]) if n == "fmax" else z3.fpLEQ(fps[0], fps[1])
        r = z3.If(z3.fpIsNaN(fps[0]), fps[1], z3.If(z3.Or(z3.fpIsNaN(fps[1]), pick), fps[0], fps[1]))
    else:
        raise ShimUnsupported("float ufunc " + n)
    return z3.fpToIEEEBV(r)


_FP_UFUNCS = ("add", "subtract", "multiply", "true_divide", "negative", "absolute", "maximum", "minimum", "fmax", "fmin")


def _uf_cast(v, src, dst):
    """numeric conversions involving floats are numpy's C loops: uninterpreted per (source, target) dtype (DESIGN 3.3)"""
    E().has_bv = True
    if z3.is_bool(v):
        if dst.kind == "f":
            return z3.If(v, _float_bits(1.0, dst), _float_bits(0.0, dst))
        v = z3.If(v, 1, 0)
    if src.kind == "f" and dst.kind in "iu" and z3.is_app(v) and v.decl().name().startswith("uf_cast_") and v.decl().name().endswith("_%s_int" % src.name):
        # int -> float -> int round trip: exact for |x| < 2^53 (the harness bounds keep index-like values far below)
        return v.arg(0)
    if src.kind == "f" and dst.kind in "iu" and z3.is_app(v) and v.decl().kind() == z3.Z3_OP_ITE:
        return z3.If(v.arg(0), _lift(_uf_cast(v.arg(1), src, dst)), _lift(_uf_cast(v.arg(2), src, dst)))
    out_sort = z3.BitVecSort(dst.bits) if dst.kind == "f" or True else z3.IntSort()
    f = z3.Function("uf_cast_%s_%s_%s" % (src.name, dst.name, "bv" if z3.is_bv(v) else "int"), v.sort(), out_sort)
    return f(v)


def _ite(c, a, b):
    if is_sym(c) and E().lits:
        c = E().simp(c)
        if z3.is_true(c):
            return a
        if z3.is_false(c):
            return b
    if isinstance(c, builtins.bool):
        return a if c else b
    if not is_sym(a) and not is_sym(b) and a == b and type(a) == type(b):
        return a
    a, b = _coerce_pair(a, b, arith=False)
    return z3.If(c, a, b)


def _lift(v, like=None):
    if is_sym(v):
        return v
    if isinstance(v, builtins.bool):
        return z3.BoolVal(v)
    if like is not None and z3.is_bv(like):
        return z3.BitVecVal(int(v), like.size())
    if isinstance(v, builtins.int):
        return z3.IntVal(v)
    raise ShimUnsupported(f"lift {v!r}")


_BITS_MEMO = {}
_eng.RESET_HOOKS.append(_BITS_MEMO.clear)


def _contains_bits(t):
    k = t.get_id()
    r = _BITS_MEMO.get(k)
    if r is not None and r[0].eq(t):
        return r[1]
    if z3.is_app(t) and t.decl().name().startswith("bits") and t.decl().arity() == 1 and z3.is_int(t.arg(0)):
        v = True
    else:
        v = _py_any(_contains_bits(c) for c in t.children() if z3.is_bv(c) or z3.is_bool(c) is False and False) or _py_any(_contains_bits(c) for c in t.children() if z3.is_bv(c))
    _BITS_MEMO[k] = (t, v)
    return v


def _is_bits_term(c):
    return is_sym(c) and z3.is_bv(c) and _contains_bits(c)


def _int_to_bv(t, w):
    t = z3.simplify(t)
    if z3.is_int_value(t):
        return z3.BitVecVal(t.as_long(), w)
    if z3.is_app(t) and t.decl().kind() == z3.Z3_OP_ITE:
        return z3.If(t.arg(0), _int_to_bv(t.arg(1), w), _int_to_bv(t.arg(2), w))
    return z3.Int2BV(t, w)


def _coerce_pair(a, b, arith=True):
    if arith and _is_bits_term(a) and not (is_sym(b) and z3.is_bv(b) and not _is_bits_term(b)):
        a = _bv_to_int(a)
    if arith and _is_bits_term(b) and not (is_sym(a) and z3.is_bv(a) and not _is_bits_term(a)):
        b = _bv_to_int(b)
    if is_sym(a) and not is_sym(b):
        return a, _lift(b, a)
    if is_sym(b) and not is_sym(a):
        return _lift(a, b), b
    if is_sym(a) and is_sym(b):
        if z3.is_bv(a) and z3.is_int(b):
            if _is_bits_term(a):
                return _bv_to_int(a), b
            return a, _int_to_bv(b, a.size())       # genuine bit-vector data: exact (mod 2^w) conversion of the Int side
        if z3.is_int(a) and z3.is_bv(b):
            if _is_bits_term(b):
                return a, _bv_to_int(b)
            return _int_to_bv(a, b.size()), b
        if z3.is_bool(a) and z3.is_bv(b):
            return z3.If(a, z3.BitVecVal(1, b.size()), z3.BitVecVal(0, b.size())), b
        if z3.is_bv(a) and z3.is_bool(b):
            return a, z3.If(b, z3.BitVecVal(1, a.size()), z3.BitVecVal(0, a.size()))
        if z3.is_bool(a) and z3.is_int(b):
            return z3.If(a, 1, 0), b
        if z3.is_int(a) and z3.is_bool(b):
            return a, z3.If(b, 1, 0)
        if z3.is_bv(a) and z3.is_bv(b) and a.size() != b.size():
            raise ShimUnsupported("bit-vector width mismatch %d/%d" % (a.size(), b.size()))
        return a, b
    return _lift(a), _lift(b)


def _eq(a, b):
    if not is_sym(a) and not is_sym(b):
        return a == b
    a, b = _coerce_pair(a, b)
    r = a == b
    if E().lits:
        r = E().simp(r)
        if z3.is_true(r):
            return True
        if z3.is_false(r):
            return False
    return r


def _and(*cs):
    cs = [c for c in cs if c is not True]
    if _py_any(c is False for c in cs):
        return False
    if not cs:
        return True
    return z3.And(*cs) if len(cs) > 1 else cs[0]


def _or(*cs):
    cs = [c for c in cs if c is not False]
    if _py_any(c is True for c in cs):
        return True
    if not cs:
        return False
    return z3.Or(*cs) if len(cs) > 1 else cs[0]


def _not(c):
    if isinstance(c, builtins.bool):
        return not c
    return z3.Not(c)


def _select(cells, idx):
    """cells[idx] for a (possibly symbolic) non-negative in-range idx."""
    if not is_sym(idx):
        return cells[idx]
    if _py_all(not is_sym(c) for c in cells) and len(set(map(repr, cells))) == 1:
        return cells[0]
    out = cells[-1]
    for p in range(len(cells) - 2, -1, -1):
        out = _ite(_eq(idx, p), cells[p], out)
    return out


# ------------------------------------------------------------------ ndarray
class _Store:
    __slots__ = ("cells",)

    def __init__(self, cells):
        self.cells = cells


def _nest(flat, shape):
    if len(shape) == 0:
        return flat[0]
    if len(shape) == 1:
        return list(flat)
    step = 1
    for s in shape[1:]:
        step *= s
    return [_nest(flat[i * step:(i + 1) * step], shape[1:]) for i in range(shape[0])]


def _flatten(nested, ndim):
    if ndim == 0:
        return [nested]
    if ndim == 1:
        return list(nested)
    out = []
    for x in nested:
        out.extend(_flatten(x, ndim - 1))
    return out


def _prod(shape):
    p = 1
    for s in shape:
        p *= s
    return p


def _norm_slice(s, n):
    """concretise a slice against length n -> python range"""
    def c(x):
        if x is None:
            return None
        if isinstance(x, (generic, SymPy)):
            return int(x)
        if is_sym(x):
            return E().concretize(x)
        return int(x)
    return range(*slice(c(s.start), c(s.stop), c(s.step)).indices(n))


class ndarray(_OpsMixin):
    __array_priority__ = 0.0

    def __init__(self, store, pos, shape, dt, contig=True):
        self._store = store
        self._pos = pos
        self.shape = tuple(shape)
        self.dtype = dt
        self._contig = contig

    # -- basics
    def _cells(self):
        c = self._store.cells
        return [c[p] for p in self._pos]

    @property
    def ndim(self):
        return len(self.shape)

    @property
    def size(self):
        return len(self._pos)

    @property
    def itemsize(self):
        return self.dtype.itemsize

    @property
    def strides(self):
        """byte steps per axis, read off the positions of the cells in their store (views keep their parent's layout)"""
        if self.ndim == 0:
            return ()
        st = []
        acc = self.dtype.itemsize
        for s_ in reversed(self.shape):
            st.append(acc)
            acc *= s_
        default = tuple(reversed(st))
        if self._contig or self.size <= 1 or self.ndim > 2:
            return default
        pos, out = self._pos, []
        if self.ndim == 1:
            return ((pos[1] - pos[0]) * self.dtype.itemsize,)
        r, c = self.shape
        out.append((pos[c] - pos[0]) * self.dtype.itemsize if r > 1 else default[0])
        out.append((pos[1] - pos[0]) * self.dtype.itemsize if c > 1 else default[1])
        return tuple(out)

    @property
    def T(self):
        if self.ndim < 2:
            return self
        nested = _nest(self._pos, self.shape)
        r, c = self.shape
        pos = [nested[i][j] for j in range(c) for i in range(r)]
        return ndarray(self._store, pos, (c, r), self.dtype, contig=False)

    def __len__(self):
        if not self.shape:
            raise TypeError("len() of unsized object")
        return self.shape[0]

    def __iter__(self):
        for i in range(len(self)):
            yield self[i]

    def __bool__(self):
        if self.size != 1:
            raise ValueError("The truth value of an array with more than one element is ambiguous.")
        return _truth(self._cells()[0])

    def __int__(self):
        if self.size != 1 or self.ndim > 0 and False:
            raise TypeError("only 0-dimensional arrays can be converted to Python scalars")
        if self.ndim != 0:
            raise TypeError("only 0-dimensional arrays can be converted to Python scalars")
        return int(_concrete(self._cells()[0], self.dtype))

    __index__ = __int__

    def __repr__(self):
        return f"symarray({_nest(self._cells(), self.shape)}, {self.dtype.name})"

    def item(self):
        assert self.size == 1
        return _concrete(self._cells()[0], self.dtype)

    def tolist(self):
        # python-level values; symbolic cells stay symbolic as weak (python-like) scalars
        return _nest([c if not is_sym(c) else SymPy(c, self.dtype) for c in self._cells()], self.shape)

    def copy(self):
        return ndarray(_Store(self._cells()), list(range(self.size)), self.shape, self.dtype)

    def ravel(self, order="C"):
        if order == "F":
            return self.T.ravel() if self.ndim == 2 else self.ravel()
        if order in ("K", "A") and self.ndim == 2 and not self._contig:
            # memory order: only the transposed view of a row-major block is modelled (its cells in the order they lie in the buffer)
            if sorted(self.T._pos) == list(self.T._pos):
                cells = [self._store.cells[q] for q in self.T._pos]
                return ndarray(_Store(cells), list(range(self.size)), (self.size,), self.dtype)
            if order == "K":
                raise ShimUnsupported("ravel(order='K') of a strided view")
        elif order not in ("C", "K", "A"):
            raise ValueError("order must be one of 'C', 'F', 'A', or 'K'")
        if self._contig or self.ndim <= 1:
            return ndarray(self._store, self._pos, (self.size,), self.dtype, self._contig)
        return ndarray(_Store(self._cells()), list(range(self.size)), (self.size,), self.dtype)

    def flatten(self):
        return ndarray(_Store(self._cells()), list(range(self.size)), (self.size,), self.dtype)

    def reshape(self, *shape):
        if len(shape) == 1 and isinstance(shape[0], (tuple, list)):
            shape = tuple(shape[0])
        shape = [int(s) for s in shape]
        if -1 in shape:
            k = shape.index(-1)
            rest = _prod([s for s in shape if s != -1])
            if rest == 0:
                raise ValueError(f"cannot reshape array of size {self.size} into shape {tuple(shape)}")
            shape[k] = self.size // rest
        if _prod(shape) != self.size:
            raise ValueError(f"cannot reshape array of size {self.size} into shape {tuple(shape)}")
        if self._contig:
            return ndarray(self._store, self._pos, shape, self.dtype, True)
        return ndarray(_Store(self._cells()), list(range(self.size)), shape, self.dtype)

    def astype(self, dt, copy=True, **kw):
        dt = dtype(dt)
        if not copy and dt is self.dtype:
            return self                      # numpy returns the array itself when no conversion is needed and copy=False
        return ndarray(_Store([_cast(c, self.dtype, dt) for c in self._cells()]), list(range(self.size)), self.shape, dt)

    def view(self, dt=None):
        if isinstance(dt, type) and issubclass(dt, ndarray) and dt is not ndarray:
            obj = dt.__new__(dt)          # a view typed as a subclass of ndarray (same cells)
            ndarray.__init__(obj, self._store, self._pos, self.shape, self.dtype, self._contig)
            return obj
        if dt is None or (isinstance(dt, type) and issubclass(dt, ndarray)):
            return ndarray(self._store, self._pos, self.shape, self.dtype, self._contig)
        dt = dtype(dt)
        if dt is self.dtype:
            return ndarray(self._store, self._pos, self.shape, dt, self._contig)
        if dt.itemsize == self.dtype.itemsize:
            if dt.kind in "iu" and self.dtype.kind in "iu":
                cells = self._cells()
                reg = E().bits_reg
                if False and len(reg) > 0 and _py_any(is_sym(c) and z3.is_bv(c) for c in cells):
                    newc = []
                    for c in cells:
                        if is_sym(c) and z3.is_bv(c):
                            u = _unbits(c, dt.bits)
                            if u is None:
                                c = _wrap_int(z3.simplify(c).as_long(), dt)
                            else:
                                c = u
                        newc.append(c)
                    return ndarray(_Store(newc), list(range(self.size)), self.shape, dt)
                if _py_all(not is_sym(c) or z3.is_bv(c) for c in cells):
                    # same-width reinterpretation: a *shared* view is only exact for BV cells / concrete nonneg
                    if _py_all(is_sym(c) or c >= 0 for c in cells) or True:
                        newc = [c if is_sym(c) else _wrap_int(c, dt) for c in cells]
                        if newc == cells or _py_all(is_sym(c) for c in cells):
                            return ndarray(self._store, self._pos, self.shape, dt, self._contig)
                        return ndarray(_Store(newc), list(range(self.size)), self.shape, dt)  # snapshot (write-through unsupported)
                newc = [((_int_to_bv_try(c, dt.bits) if _int_to_bv_try(c, dt.bits) is not None else _bits(c, dt.bits)) if (is_sym(c) and z3.is_int(c)) else c if is_sym(c) else _wrap_int(c, dt)) for c in cells]
                return ndarray(_Store(newc), list(range(self.size)), self.shape, dt)
            if self.dtype.kind == "b" and dt.kind in "iu":
                newc = [(z3.If(c, z3.BitVecVal(1, 8), z3.BitVecVal(0, 8)) if is_sym(c) else int(c)) for c in self._cells()]
                return ndarray(_Store(newc), list(range(self.size)), self.shape, dt)      # snapshot (writes do not propagate)
            if dt.kind == "b" and self.dtype.kind in "iu":
                newc = [(_as_bool_term(c) if is_sym(c) else builtins.bool(c)) for c in self._cells()]
                return ndarray(_Store(newc), list(range(self.size)), self.shape, dt)
            if self.dtype.kind == "f" and dt.kind in "iu" and _py_all(not is_sym(c) for c in self._cells()):
                newc = [_wrap_int(_float_bits(float(c), self.dtype).as_long(), dt) for c in self._cells()]
                return ndarray(_Store(newc), list(range(self.size)), self.shape, dt)      # snapshot of concrete floats as bit patterns
            if {dt.kind, self.dtype.kind} <= {"f", "u", "i"} and _py_all(is_sym(c) and z3.is_bv(c) for c in self._cells()):
                return ndarray(self._store, self._pos, self.shape, dt, self._contig)   # float <-> uint bit pattern: shared store
            raise ShimUnsupported(f"view {self.dtype}->{dt}")
        # size-changing reinterpretation: needs contiguous last axis
        if self.ndim != 1:
            raise ShimUnsupported("size-changing view on nd")
        if not self._contig and self.size > 1:
            raise ValueError("To change to a dtype of a different size, the last axis must be contiguous")
        cells = [_to_bv(c, self.dtype) for c in self._cells()]
        if dt.itemsize > self.dtype.itemsize:
            k = dt.itemsize // self.dtype.itemsize
            if self.size % k:
                raise ValueError("When changing to a larger dtype, its size must be a divisor of the total size in bytes of the last axis of the array.")
            out = []
            for i in range(0, self.size, k):
                grp = cells[i:i + k]
                out.append(z3.simplify(z3.Concat(*reversed(grp))) if k > 1 else grp[0])   # little endian
        else:
            k = self.dtype.itemsize // dt.itemsize
            out = []
            for c in cells:
                for j in range(k):
                    out.append(z3.simplify(z3.Extract((j + 1) * dt.bits - 1, j * dt.bits, c)))
        out = [_bv_const(c, dt) for c in out]
        if dt.kind in "iu":
            # bit patterns of Int-represented values (bitsN(x), or a choice between such) go straight back to their numbers
            out = [_unwrap_bits(c, dt) for c in out]
        return ndarray(_Store(out), list(range(len(out))), (len(out),), dt)  # snapshot; writes do not propagate (flagged)

    def fill(self, v):
        self[...] = v

    # -- indexing
    def _index(self, key):
        """returns ('basic', pos, shape, contig) or ('adv', cells, shape) """
        if not isinstance(key, tuple):
            key = (key,)
        # expand ellipsis
        n_real = _py_sum(1 for k in key if k is not None and k is not Ellipsis)
        if _py_any(k is Ellipsis for k in key):
            i = next(i for i, k in enumerate(key) if k is Ellipsis)
            key = key[:i] + (slice(None),) * (self.ndim - n_real) + key[i + 1:]
        else:
            key = key + (slice(None),) * (self.ndim - n_real)
        key = tuple(asarray(k) if isinstance(k, list) else k for k in key)
        adv = [k for k in key if isinstance(k, ndarray) and k.ndim > 0]
        sym_int = [k for k in key if _is_sym_scalar(k)]
        if not adv and not sym_int:
            nested = _nest(self._pos, self.shape) if self.ndim else self._pos[0]
            pos, shape, contig = _basic(nested, self.shape, key)
            return "basic", pos, shape, contig and self._contig
        return ("adv",) + self._adv_index(key)

    def _adv_index(self, key):
        # supported: 1 advanced index (int array / bool array / symbolic int) on axis 0 of 1-D or 2-D array (+ basic on the rest),
        # or two advanced int indices on a 2-D array.
        cells_nested = _nest(self._cells(), self.shape)
        k0 = key[0]
        rest = key[1:]
        if _is_sym_scalar(k0):
            n = self.shape[0]
            idx = _scalar_val(k0)
            idx = _wrap_index(idx, n)
            if self.ndim == 1:
                return [_select(cells_nested, idx)], ()
            rows = [[_select([cells_nested[r][c] for r in range(n)], idx) for c in range(self.shape[1])]]
            sub = ndarray(_Store(_flatten(rows, 2)), list(range(self.shape[1])), (self.shape[1],), self.dtype)
            if rest and rest != (slice(None),):
                sub = sub[rest]
                if isinstance(sub, generic):
                    return [sub.val], ()
            return sub._cells(), sub.shape
        if isinstance(k0, ndarray) and k0.dtype.kind == "b":
            assert k0.ndim == 1 and k0.shape[0] == self.shape[0], "bool mask shape"
            m = k0._cells()
            if self.ndim == 1 and not rest:
                vals, cnt = _compact(m, cells_nested)
                return vals, (cnt,)
            if self.ndim == 2 and (not rest or rest == (slice(None),)):
                ncol = self.shape[1]
                rowtuples = cells_nested
                if _py_all(not is_sym(x) for x in m):
                    sel = [r for r, mm in zip(rowtuples, m) if mm]
                    return [c for r in sel for c in r], (len(sel), ncol)
                cols = []
                cnt = 0
                for c in range(ncol):
                    vals, cnt = _compact(m, [rowtuples[r][c] for r in range(self.shape[0])])
                    cols.append(vals)
                if ncol == 0:
                    _, cnt = _compact(m, list(range(self.shape[0])))
                return [cols[c][k] for k in range(cnt) for c in range(ncol)], (cnt, ncol)
            raise ShimUnsupported("bool mask on nd")
        if isinstance(k0, ndarray):
            n = self.shape[0]
            idxs = [_wrap_index(i, n) for i in k0._cells()]
            if len(rest) == 1 and isinstance(rest[0], ndarray):
                assert self.ndim == 2
                jdx = [_wrap_index(j, self.shape[1]) for j in rest[0]._cells()]
                assert len(jdx) == len(idxs)
                flat = self._cells()
                out = []
                for i, j in zip(idxs, jdx):
                    if not is_sym(i) and not is_sym(j):
                        out.append(cells_nested[i][j])
                    else:
                        lin = _arith("add", _arith("mul", i, self.shape[1]), j)
                        out.append(_select(flat, lin))
                return out, k0.shape
            if self.ndim == 1:
                return [_select(cells_nested, i) for i in idxs], k0.shape
            if self.ndim == 2 and (not rest or rest == (slice(None),)):
                ncol = self.shape[1]
                out = []
                for i in idxs:
                    for c in range(ncol):
                        out.append(_select([cells_nested[r][c] for r in range(n)], i))
                return out, k0.shape + (ncol,)
            raise ShimUnsupported("adv index form")
        # basic on axis 0 then advanced later: a[:, idx] / a[..., idx]
        if isinstance(k0, slice) and len(rest) == 1 and self.ndim == 2:
            sub = self[k0]
            cols = rest[0]
            res_rows = [ndarray(_Store(list(r)), list(range(len(r))), (len(r),), self.dtype)[cols] for r in _nest(sub._cells(), sub.shape)]
            if not res_rows:
                return [], (0, 0)
            if isinstance(res_rows[0], generic):
                return [r.val for r in res_rows], (len(res_rows),)
            return [c for r in res_rows for c in r._cells()], (len(res_rows),) + res_rows[0].shape
        raise ShimUnsupported(f"index {key}")

    def __getitem__(self, key):
        r = self._index(key)
        if r[0] == "basic":
            _, pos, shape, contig = r
            if shape == () and not (isinstance(key, tuple) and len(key) == 0):
                return self.dtype.type(self._store.cells[pos[0]], _dt=self.dtype)
            return ndarray(self._store, pos, shape, self.dtype, contig)
        _, cells, shape = r
        if shape == ():
            return self.dtype.type(cells[0], _dt=self.dtype)
        return ndarray(_Store(list(cells)), list(range(len(cells))), shape, self.dtype)

    def __setitem__(self, key, value):
        if not isinstance(key, tuple):
            key = (key,)
        key = tuple(asarray(k) if isinstance(k, list) else k for k in key)
        simple_adv = len(key) == 1 and isinstance(key[0], ndarray) and key[0].ndim > 0 and self.ndim == 1
        if simple_adv:
            k0 = key[0]
            cells = self._store.cells
            if k0.dtype.kind == "b":
                m = k0._cells()
                cnt_known = _py_all(not is_sym(x) for x in m)
                if cnt_known:
                    tgt = [p for p, mm in zip(self._pos, m) if mm]
                    vals = _bcast_vals(value, (len(tgt),), self.dtype)
                    for p, v in zip(tgt, vals):
                        cells[p] = v
                    return
                # symbolic mask: value must be scalar or matching count
                v = value
                if isinstance(v, (ndarray, list)) and asarray(v).size != 1:
                    va = asarray(v)
                    cnt = _count_true(m)
                    n = E().concretize(cnt) if is_sym(cnt) else cnt
                    if va.size != n:
                        raise ValueError("NumPy boolean array indexing assignment cannot assign %d input values to the %d output values where the mask is true" % (va.size, n))
                    vc = [_cast(x, va.dtype, self.dtype) for x in va._cells()]
                    run = 0
                    for p, mm in zip(self._pos, m):
                        cells[p] = _ite(_as_bool_term(mm), _select(vc, run) if vc else cells[p], cells[p])
                        run = _arith("add", run, _ite(_as_bool_term(mm), 1, 0))
                    return
                sv = _bcast_vals(value, (1,), self.dtype)[0]
                for p, mm in zip(self._pos, m):
                    cells[p] = _ite(_as_bool_term(mm), sv, cells[p])
                return
            n = self.shape[0]
            idxs = [_wrap_index(i, n) for i in k0._cells()]
            vals = _bcast_vals(value, (len(idxs),), self.dtype)
            if _py_all(not is_sym(i) for i in idxs):
                for i, v in zip(idxs, vals):
                    cells[self._pos[i]] = v
                return
            new = []
            for q, p in enumerate(self._pos):
                cur = cells[p]
                for i, v in zip(idxs, vals):
                    cur = _ite(_eq(i, q), v, cur)
                new.append(cur)
            for p, v in zip(self._pos, new):
                cells[p] = v
            return
        r = self._index(key)
        if r[0] != "basic":
            # symbolic scalar index on 1-D
            if len(key) == 1 and _is_sym_scalar(key[0]) and self.ndim == 1:
                idx = _wrap_index(_scalar_val(key[0]), self.shape[0])
                v = _bcast_vals(value, (1,), self.dtype)[0]
                cells = self._store.cells
                for q, p in enumerate(self._pos):
                    cells[p] = _ite(_eq(idx, q), v, cells[p])
                return
            if len(key) == 2 and isinstance(key[0], slice) and self.ndim == 2:
                # a[:, j] = v with concrete handled as basic; adv unsupported in prototype
                pass
            raise ShimUnsupported(f"setitem {key}")
        _, pos, shape, _ = r
        vals = _bcast_vals(value, shape, self.dtype)
        cells = self._store.cells
        for p, v in zip(pos, vals):
            cells[p] = v

    # -- methods delegating to functions
    def sum(self, axis=None, dtype=None, keepdims=False, out=None):
        return add.reduce(self, axis=axis, dtype=dtype, keepdims=keepdims)

    def cumsum(self, axis=None, dtype=None, out=None):
        return cumsum(self, axis=axis, dtype=dtype, out=out)

    def max(self, axis=None, **kw):
        return maximum.reduce(self, axis=axis, **kw)

    def min(self, axis=None, **kw):
        return minimum.reduce(self, axis=axis, **kw)

    def all(self, axis=None, **kw):
        return logical_and.reduce(self, axis=axis, **kw)

    def any(self, axis=None, **kw):
        return logical_or.reduce(self, axis=axis, **kw)

    def nonzero(self):
        return nonzero(self)

    def sort(self, axis=-1, kind=None):
        s = sort(self, kind=kind)
        self[...] = s


def _unwrap_bits(c, dt):
    if not (is_sym(c) and z3.is_bv(c)):
        return c
    if z3.is_app(c) and c.decl().name() == "bits%d" % dt.bits and c.decl().arity() == 1:
        return c.arg(0)
    if z3.is_app(c) and c.decl().kind() == z3.Z3_OP_ITE:
        a, b = _unwrap_bits(_bv_const(c.arg(1), dt), dt), _unwrap_bits(_bv_const(c.arg(2), dt), dt)
        if not (is_sym(a) and z3.is_bv(a)) and not (is_sym(b) and z3.is_bv(b)):
            return z3.If(c.arg(0), _lift(a), _lift(b))
    return c


def _unbits_syntactic(c, dt):
    if is_sym(c) and z3.is_app(c) and c.decl().name() == "bits%d" % dt.bits:
        return c.arg(0)
    if is_sym(c) and z3.is_app(c) and c.decl().kind() == z3.Z3_OP_ITE:
        return z3.If(c.arg(0), _lift(_unbits_syntactic(_bv_const(c.arg(1), dt), dt)), _lift(_unbits_syntactic(_bv_const(c.arg(2), dt), dt)))
    if is_sym(c) and z3.is_bv(c) and E().bits_reg:
        return _bits_funcs(dt.bits)[1](c)
    return c


def _bv_const(c, dt):
    c = z3.simplify(c) if is_sym(c) else c
    if is_sym(c) and z3.is_bv_value(c):
        return _wrap_int(c.as_long(), dt)
    return c


def _is_sym_scalar(k):
    return (isinstance(k, (generic, SymPy)) and is_sym(k.val)) or (is_sym(k))


def _scalar_val(k):
    return k.val if isinstance(k, (generic, SymPy)) else k


def _wrap_index(i, n):
    """python/numpy negative-index wrap with bounds check (forks to IndexError path if violable)."""
    if isinstance(i, (generic, SymPy)):
        i = i.val
    if not is_sym(i):
        i = int(i)
        if i < -n or i >= n:
            raise IndexError(f"index {i} is out of bounds for axis 0 with size {n}")
        return i + n if i < 0 else i
    if z3.is_bv(i):
        w = i.size()
        ok = E().branch(z3.And(i >= z3.BitVecVal(-n, w), i < z3.BitVecVal(n, w)))
        if not ok:
            raise IndexError(f"index (symbolic) is out of bounds for axis 0 with size {n}")
        return z3.If(i < 0, i + z3.BitVecVal(n, w), i)
    ok = E().branch(z3.And(i >= -n, i < n))
    if not ok:
        raise IndexError(f"index (symbolic) is out of bounds for axis 0 with size {n}")
    if E().implied(i >= 0):
        return i
    return z3.If(i < 0, i + n, i)


def _basic(nested, shape, key):
    """apply basic index `key` (ints, slices, None) to nested pos; returns (flat pos, shape, contig)."""
    contig = True

    def rec(sub, shp, ks, first):
        nonlocal contig
        if not ks:
            return sub, tuple(shp)
        k = ks[0]
        if k is None:
            r, s = rec(sub, shp, ks[1:], False)
            return [r], (1,) + s
        if not shp:
            raise IndexError("too many indices for array")
        n = shp[0]
        if isinstance(k, slice):
            rng = _norm_slice(k, n)
            if len(rng) > 1 and rng.step != 1:
                contig = False
            if not first and len(rng) != n:
                contig = False if len(shp) >= 1 and len(rng) > 0 else contig
            outs, s = [], None
            for i in rng:
                r, s = rec(sub[i], shp[1:], ks[1:], False)
                outs.append(r)
            if s is None:
                _, s = rec(_zero_like(shp[1:]), shp[1:], ks[1:], False)
            return outs, (len(rng),) + s
        i = int(k)
        if i < -n or i >= n:
            raise IndexError(f"index {i} is out of bounds for axis 0 with size {n}")
        if len(shp) > 1 and ks[1:] and _py_any(isinstance(x, slice) for x in ks[1:]):
            pass
        return rec(sub[i], shp[1:], ks[1:], False)

    res, shp = rec(nested, list(shape), list(key), True)
    return _flatten(res, len(shp)), shp, contig


def _zero_like(shp):
    if not shp:
        return 0
    return [_zero_like(shp[1:]) for _ in range(max(shp[0], 1))]


def _count_true(m):
    c = 0
    for x in m:
        c = _arith("add", c, _ite(_as_bool_term(x), 1, 0))
    return c


def _compact(mask, vals):
    """vals[mask] with symbolic mask: concretise the count, build k-th-true selection."""
    if _py_all(not is_sym(x) for x in mask):
        out = [v for v, mm in zip(vals, mask) if mm]
        return out, len(out)
    cnt_t = _count_true(mask)
    cnt = E().concretize(cnt_t) if is_sym(cnt_t) else cnt_t
    pref, run = [], 0
    for x in mask:
        pref.append(run)
        run = _arith("add", run, _ite(_as_bool_term(x), 1, 0))
    out = []
    for k in range(cnt):
        cur = vals[-1]
        for i in range(len(vals) - 2, -1, -1):
            cur = _ite(_and(_as_bool_term(mask[i]), _eq(pref[i], k)), vals[i], cur)
        out.append(cur)
    return out, cnt


def _bcast_vals(value, shape, dt):
    n = _prod(shape)
    if isinstance(value, (list, tuple)):
        value = asarray(value)
    if isinstance(value, ndarray):
        if value.size == 1:
            v = _cast(value._cells()[0], value.dtype, dt)
            return [v] * n
        b = broadcast_to(value, shape)
        return [_cast(c, value.dtype, dt) for c in b._cells()]
    if isinstance(value, generic):
        return [_cast(value.val, value.dtype, dt)] * n
    if isinstance(value, SymPy):
        return [_cast(value.val, value._pdt, dt)] * n
    if is_sym(value):
        return [value] * n
    return [_cast(value, _pydt(value), dt)] * n


# ------------------------------------------------------------------ construction
def _from_nested(obj):
    """-> (cells, shape, dtype or None)"""
    if isinstance(obj, ndarray):
        return obj._cells(), obj.shape, obj.dtype
    if isinstance(obj, generic):
        return [obj.val], (), obj.dtype
    if isinstance(obj, SymPy):
        return [obj.val], (), obj._pdt
    if isinstance(obj, (list, tuple, range)) or hasattr(obj, "__iter__") and not is_sym(obj):
        items = [_from_nested(x) for x in obj]
        if not items:
            return [], (0,), None
        shp = items[0][1]
        assert _py_all(i[1] == shp for i in items), "ragged nested sequence"
        dts = [i[2] for i in items if i[2] is not None]
        dt = _promote_all(dts) if dts else None
        cells = []
        for c, _, d in items:
            cells.extend(_cast(x, d, dt) if d is not None and dt is not None and d is not dt else x for x in c)
        return cells, (len(items),) + tuple(shp), dt
    return [obj], (), _pydt(obj)


def array(obj, dtype=None, copy=True, **kw):
    dt = globals()["dtype"](dtype) if dtype is not None else None
    if not isinstance(obj, (ndarray, generic, SymPy, list, tuple)) and hasattr(obj, "__array__"):
        r = obj.__array__()                  # the array-conversion protocol
        return r.astype(dt) if dt is not None and dt is not r.dtype else (r.copy() if copy else r)
    cells, shape, src = _from_nested(obj)
    if src is None:
        src = dt or _F64
    if dt is None:
        dt = src
    cells = [_cast(c, src, dt) for c in cells]
    return ndarray(_Store(list(cells)), list(range(len(cells))), shape, dt)


def asarray(obj, dtype=None):
    if isinstance(obj, ndarray) and (dtype is None or globals()["dtype"](dtype) is obj.dtype):
        return obj
    if not isinstance(obj, (ndarray, generic, SymPy, list, tuple)) and hasattr(obj, "__array__"):
        return array(obj, dtype=dtype, copy=False)
    return array(obj, dtype=dtype)


asanyarray = asarray


def zeros(shape, dtype=float):
    return full(shape, 0, dtype)


def ones(shape, dtype=float):
    return full(shape, 1, dtype)


def empty(shape, dtype=float):
    """uninitialised memory: fresh unconstrained cells (DESIGN 3.2.6)"""
    shape = _shape_arg(shape)
    dt = globals()["dtype"](dtype)
    n = _prod(shape)
    return ndarray(_Store([_fresh_cell(dt) for _ in range(n)]), list(range(n)), shape, dt)


def _fresh_cell(dt):
    e = E()
    name = e.fresh_name("n_empty")
    if dt.kind == "b":
        return z3.Bool(name)
    if dt.kind == "f":
        e.has_bv = True
        return z3.BitVec(name, dt.bits)
    v = z3.Int(name)
    if dt.kind == "u":
        e.add(v >= 0)
    return v


def _shape_arg(shape):
    shp = tuple(int(s) for s in shape) if isinstance(shape, (tuple, list)) else (int(shape),)
    if _py_any(d < 0 for d in shp):
        raise ValueError("negative dimensions are not allowed")
    return shp


def full(shape, fill_value, dtype=None):
    shape = _shape_arg(shape)
    if dtype is None:
        dt = fill_value.dtype if isinstance(fill_value, generic) else fill_value._pdt if isinstance(fill_value, SymPy) else _pydt(fill_value)
    else:
        dt = globals()["dtype"](dtype)
    v = _bcast_vals(fill_value, (1,), dt)[0]
    n = _prod(shape)
    return ndarray(_Store([v] * n), list(range(n)), shape, dt)


def zeros_like(a, dtype=None, shape=None):
    if not isinstance(a, ndarray) and hasattr(a, "__array_function__"):
        return _dispatch(zeros_like, (a,), dict(dtype=dtype, shape=shape) if shape is not None else dict(dtype=dtype))
    return full(a.shape if shape is None else shape, 0, dtype or a.dtype)


def ones_like(a, dtype=None, shape=None):
    if not isinstance(a, ndarray) and hasattr(a, "__array_function__"):
        kw = {}
        if dtype is not None:
            kw["dtype"] = dtype
        if shape is not None:
            kw["shape"] = shape
        return _dispatch(ones_like, (a,), kw)
    return full(a.shape if shape is None else shape, 1, dtype or a.dtype)


def empty_like(a, dtype=None, shape=None):
    if not isinstance(a, ndarray) and hasattr(a, "__array_function__"):
        kw = {}
        if dtype is not None:
            kw["dtype"] = dtype
        if shape is not None:
            kw["shape"] = shape
        return _dispatch(empty_like, (a,), kw)
    return empty(a.shape if shape is None else shape, dtype or a.dtype)


def arange(*args, dtype=None):
    args = [int(a) for a in args]
    vals = list(range(*args))
    return array(vals, dtype=dtype or int64) if vals else zeros(0, dtype or int64)


def atleast_1d(a):
    a = asarray(a)
    return a.reshape(1) if a.ndim == 0 else a


def broadcast_to(a, shape):
    a = asarray(a)
    shape = tuple(shape)
    ash = (1,) * (len(shape) - a.ndim) + a.shape
    nested = _nest(a._pos, a.shape) if a.ndim else a._pos[0]
    for _ in range(len(shape) - a.ndim):
        nested = [nested]

    def rec(sub, ashp, shp):
        if not shp:
            return sub
        if ashp[0] == shp[0]:
            return [rec(s, ashp[1:], shp[1:]) for s in sub]
        assert ashp[0] == 1, f"cannot broadcast {a.shape} to {shape}"
        one = rec(sub[0], ashp[1:], shp[1:])
        return [one for _ in range(shp[0])]

    pos = _flatten(rec(nested, ash, shape), len(shape))
    return ndarray(a._store, pos, shape, a.dtype, contig=False)


# ------------------------------------------------------------------ promotion
_RANK = {"bool": 0, "uint8": 1, "int8": 1, "uint16": 2, "int16": 2, "uint32": 3, "int32": 3, "uint64": 4, "int64": 4}


def _promote2(a, b):
    if a is b:
        return a
    if a.kind == "b":
        return b
    if b.kind == "b":
        return a
    if a.kind == "f" or b.kind == "f":
        if a.kind == "f" and b.kind == "f":
            return a if a.itemsize >= b.itemsize else b
        f, i = (a, b) if a.kind == "f" else (b, a)
        need = 2 if i.itemsize <= 1 else 4 if i.itemsize <= 2 else 8
        return dtype._reg["float%d" % (8 * _py_max(need, f.itemsize))]
    if a.kind == b.kind:
        return a if a.itemsize >= b.itemsize else b
    u, s = (a, b) if a.kind == "u" else (b, a)
    if s.itemsize > u.itemsize:
        return s
    if u.itemsize >= 8:
        return _F64
    return dtype._reg["int%d" % (16 * u.itemsize)]


def _promote_all(dts):
    out = dts[0]
    for d in dts[1:]:
        out = _promote2(out, d)
    return out


def result_type(*args):
    ops = []
    for a in args:
        if isinstance(a, (builtins.int, builtins.float, builtins.bool)):
            ops.append((None, (), _pydt(a), True))          # python scalars are weak (NEP 50)
        elif isinstance(a, SymPy):
            ops.append((None, (), a._pdt, True))
        else:
            ops.append((None, (), dtype(a), False))
    return add._res_dtype(ops)


# ------------------------------------------------------------------ arithmetic on values
def _arith(op, a, b):
    """integer arithmetic on python ints / z3 Int / z3 BV (no dtype wrap here)."""
    if not is_sym(a) and not is_sym(b):
        if op == "add":
            return a + b
        if op == "sub":
            return a - b
        if op == "mul":
            return a * b
    a2, b2 = _coerce_pair(a, b)
    if op == "add":
        if not is_sym(a) and a == 0:
            return b2
        if not is_sym(b) and b == 0:
            return a2
        return a2 + b2
    if op == "sub":
        if not is_sym(b) and b == 0:
            return a2
        return a2 - b2
    if op == "mul":
        if is_sym(a) and is_sym(b):
            if E().notes.get("uf_mul") and z3.is_int(a2) and z3.is_int(b2):
                return z3.Function("uf_mul_int", z3.IntSort(), z3.IntSort(), z3.IntSort())(a2, b2)
            # nonlinear: concretise one operand -- the index-like (Int) one when the other is bit-vector data
            if z3.is_int(a) and z3.is_bv(b):
                return _arith("mul", E().concretize(a), b)
            bv = E().concretize(b)
            if z3.is_bv(b) and not z3.is_bv(a) and bv >= 1 << (b.size() - 1):
                bv -= 1 << b.size()
            return _arith("mul", a, bv)
        k, s = (a, b2) if not is_sym(a) else (b, a2)
        if k == 0:
            return 0
        if k == 1:
            return s
        return a2 * b2
    raise ShimUnsupported(op)


def _floordiv(a, b, dt):
    if not is_sym(a) and not is_sym(b):
        if b == 0:
            return 0
        return a // b
    if is_sym(b):
        b = E().concretize(b)
        if dt.kind == "i" and z3.is_bv(a) and b >= 1 << (dt.bits - 1):
            b -= 1 << dt.bits
    if b == 0:
        return 0
    if not is_sym(a):
        return a // b
    if z3.is_int(a):
        if b > 0:
            return a / b          # z3 Int division is floor for positive divisors
        return -((-a) / (-b)) if False else z3.If(a % (-b) == 0, (-a) / (-b), (-a) / (-b) - 0) if False else _int_floordiv_neg(a, b)
    # BV
    w = a.size()
    if dt.kind == "u":
        return z3.UDiv(a, z3.BitVecVal(b, w))
    bb = z3.BitVecVal(b, w)
    q = a / bb  # signed truncating
    r = z3.SRem(a, bb)
    return z3.If(z3.And(r != 0, (r < 0) != (bb < 0)), q - 1, q)


def _int_floordiv_neg(a, b):
    # floor(a / b) for b < 0  ==  floor(-a / -b)
    return (-a) / (-b)


def _mod(a, b, dt):
    if not is_sym(a) and not is_sym(b):
        return a % b if b else 0
    if is_sym(b):
        b = E().concretize(b)
    if b == 0:
        return 0
    if not is_sym(a):
        return a % b
    if z3.is_int(a):
        if b > 0:
            return a % b
        return -((-a) % (-b))
    w = a.size()
    if dt.kind == "u":
        return z3.URem(a, z3.BitVecVal(b, w))
    return a % z3.BitVecVal(b, w)


class _FpSorts:
    """float sorts of the *current* z3 context (the executor uses a fresh context per path)"""
    def __getitem__(self, itemsize):
        return {2: z3.Float16, 4: z3.Float32, 8: z3.Float64}[itemsize]()


_FPS = _FpSorts()


def _to_fp(v, dt):
    srt = _FPS[dt.itemsize]
    if is_sym(v):
        return z3.fpBVToFP(v, srt)
    return z3.FPVal(float(v), srt)


def _cmp(op, a, b, dt):
    if dt.kind == "f" and (is_sym(a) or is_sym(b)):
        fa, fb = _to_fp(a, dt), _to_fp(b, dt)
        return {"lt": z3.fpLT, "le": z3.fpLEQ, "gt": z3.fpGT, "ge": z3.fpGEQ, "eq": z3.fpEQ, "ne": lambda x, y: z3.Not(z3.fpEQ(x, y))}[op](fa, fb)
    if not is_sym(a) and not is_sym(b):
        return {"lt": a < b, "le": a <= b, "gt": a > b, "ge": a >= b, "eq": a == b, "ne": a != b}[op]
    a, b = _coerce_pair(a, b)
    if op == "eq":
        return a == b
    if op == "ne":
        return a != b
    if z3.is_bool(a):
        a, b = z3.If(a, 1, 0), z3.If(b, 1, 0)
    if z3.is_bv(a) and dt.kind == "u":
        return {"lt": z3.ULT, "le": z3.ULE, "gt": z3.UGT, "ge": z3.UGE}[op](a, b)
    return {"lt": a < b, "le": a <= b, "gt": a > b, "ge": a >= b}[op]


def _bitop(op, a, b, dt):
    if dt.kind == "b":
        if not is_sym(a) and not is_sym(b):
            return {"xor": a != b, "and": a and b, "or": a or b}[op]
        a, b = _as_bool_term(a), _as_bool_term(b)
        a, b = _coerce_pair(a, b)
        return {"xor": z3.Xor, "and": z3.And, "or": z3.Or}[op](a, b)
    if not is_sym(a) and not is_sym(b):
        return _wrap_int({"xor": a ^ b, "and": a & b, "or": a | b}[op], dt)
    if op == "xor":
        if not is_sym(a) and a == 0:
            return b
        if not is_sym(b) and b == 0:
            return a
    a, b = _to_bv(a, dt, partner=b), _to_bv(b, dt, partner=a)
    return {"xor": a ^ b, "and": a & b, "or": a | b}[op]


def _shift(op, a, b, dt):
    if not is_sym(a) and not is_sym(b):
        if b >= dt.bits:
            return 0 if (op == "l" or a >= 0) else -1
        return _wrap_int(a << b if op == "l" else a >> b, dt)
    if is_sym(b) and z3.is_int(b):
        b = _int_to_bv(b, dt.bits)          # shift amounts need their numeric value: exact conversion, not the bit-pattern bijection
    if is_sym(a) and z3.is_int(a) and is_sym(b):
        a = _int_to_bv(a, dt.bits)
    a, b = _to_bv(a, dt), _to_bv(b, dt)
    if op == "l":
        return a << b
    return z3.LShR(a, b) if dt.kind == "u" else a >> b


def _wrap_res(v, dt):
    if not is_sym(v) and dt.kind in "iu":
        return _wrap_int(v, dt)
    if is_sym(v) and z3.is_int(v) and dt.kind in "iu" and (dt.bits <= 16 or (dt.bits == 32 and EXACT32[0])):
        # arithmetic of an Int-represented cell in a narrow integer type wraps like the machine type (wider types: in range by the harness bounds)
        m = 1 << dt.bits
        return (v % m) if dt.kind == "u" else ((v + (m >> 1)) % m) - (m >> 1)
    return v


_UF_IMPL = {
    "add": lambda a, b, dt: _bitop("or", a, b, dt) if dt.kind == "b" else _wrap_res(_arith("add", a, b), dt),
    "subtract": lambda a, b, dt: _wrap_res(_arith("sub", a, b), dt),
    "multiply": lambda a, b, dt: _bitop("and", a, b, dt) if dt.kind == "b" else _wrap_res(_arith("mul", a, b), dt),
    "floor_divide": _floordiv,
    "remainder": _mod,
    "bitwise_xor": lambda a, b, dt: _bitop("xor", a, b, dt),
    "bitwise_and": lambda a, b, dt: _bitop("and", a, b, dt),
    "bitwise_or": lambda a, b, dt: _bitop("or", a, b, dt),
    "left_shift": lambda a, b, dt: _shift("l", a, b, dt),
    "right_shift": lambda a, b, dt: _shift("r", a, b, dt),
    "maximum": lambda a, b, dt: _ite(_cmp("ge", a, b, dt), a, b),
    "fmax": lambda a, b, dt: _ite(_cmp("ge", a, b, dt), a, b),
    "fmin": lambda a, b, dt: _ite(_cmp("le", a, b, dt), a, b),
    "minimum": lambda a, b, dt: _ite(_cmp("le", a, b, dt), a, b),
}
def _power(a, b, dt):
    if is_sym(b):
        b = E().concretize(b)
    if not is_sym(a):
        return _wrap_res(a ** b, dt) if b >= 0 else 0
    out = 1
    for _ in range(b):
        out = _arith("mul", out, a)
    return _wrap_res(out, dt)


_UF_IMPL["power"] = _power
_CMP = {"less": "lt", "less_equal": "le", "greater": "gt", "greater_equal": "ge", "equal": "eq", "not_equal": "ne"}
_LOGICAL = {"logical_and": "and", "logical_or": "or", "logical_xor": "xor"}
_IDENT = {"add": 0, "multiply": 1, "bitwise_xor": 0, "bitwise_or": 0, "bitwise_and": -1, "logical_and": True,
          "logical_or": False, "logical_xor": False, "maximum": None, "minimum": None, "subtract": None}


def _operand(x):
    """-> (cells, shape, dtype, weak)"""
    if isinstance(x, ndarray):
        return x._cells(), x.shape, x.dtype, False
    if isinstance(x, generic):
        return [x.val], (), x.dtype, x.weak
    if isinstance(x, SymPy):
        return [x.val], (), x._pdt, True
    if isinstance(x, (list, tuple)):
        a = asarray(x)
        return a._cells(), a.shape, a.dtype, False
    if is_sym(x):
        return [x], (), _pydt(x), True
    return [x], (), _pydt(x), True


def _bshape(s1, s2):
    n = _py_max(len(s1), len(s2))
    a = (1,) * (n - len(s1)) + tuple(s1)
    b = (1,) * (n - len(s2)) + tuple(s2)
    out = []
    for x, y in zip(a, b):
        if x == y or y == 1:
            out.append(x)
        elif x == 1:
            out.append(y)
        else:
            raise ValueError(f"operands could not be broadcast together with shapes {s1} {s2}")
    return tuple(out)


def _bcells(cells, shp, to):
    if tuple(shp) == tuple(to):
        return cells
    a = ndarray(_Store(list(cells)), list(range(len(cells))), shp, _I64)
    return broadcast_to(a, to)._cells()


class ufunc:
    def __init__(self, name, nin):
        self.__name__ = name
        self.nin = nin
        self.identity = _IDENT.get(name)

    def __repr__(self):
        return f"<ufunc '{self.__name__}'>"

    # ---- dtype resolution
    def _res_dtype(self, ops):
        strong = [o[2] for o in ops if not o[3]]
        weak = [o[2] for o in ops if o[3]]
        if strong:
            dt = _promote_all(strong)
            for w in weak:
                if w.kind == "f" and dt.kind != "f":
                    dt = _F64
                elif w.kind in "iu" and dt.kind == "b":
                    dt = _I64
        else:
            dt = _promote_all(weak)
        return dt

    def _apply(self, vals, dt):
        n = self.__name__
        if dt.kind == "f" and n in _FP_UFUNCS:
            return _fp_apply(n, vals, dt)
        if n in _UF_IMPL:
            return _UF_IMPL[n](vals[0], vals[1], dt)
        if n in _CMP:
            return _cmp(_CMP[n], vals[0], vals[1], dt)
        if n in _LOGICAL:
            return _bitop(_LOGICAL[n], _as_bool_term(vals[0]) if is_sym(vals[0]) else builtins.bool(vals[0]),
                          _as_bool_term(vals[1]) if is_sym(vals[1]) else builtins.bool(vals[1]), _BOOL)
        if n == "negative":
            return _wrap_res(_arith("sub", 0, vals[0]), dt)
        if n == "absolute":
            return _ite(_cmp("lt", vals[0], 0, dt), _arith("sub", 0, vals[0]), vals[0])
        if n == "sign":
            return _ite(_cmp("lt", vals[0], 0, dt), -1, _ite(_cmp("gt", vals[0], 0, dt), 1, 0))
        if n == "invert":
            if dt.kind == "b":
                return _not(_as_bool_term(vals[0])) if is_sym(vals[0]) else not vals[0]
            if not is_sym(vals[0]):
                return _wrap_int(~vals[0], dt)
            return ~_to_bv(vals[0], dt)
        if n == "logical_not":
            return _not(_as_bool_term(vals[0])) if is_sym(vals[0]) else not vals[0]
        raise ShimUnsupported(f"ufunc {n}")

    def __call__(self, *inputs, out=None, dtype=None, **kw):
        for x in inputs:
            if not isinstance(x, (ndarray, generic)) and hasattr(x, "__array_ufunc__"):
                r = x.__array_ufunc__(self, "__call__", *inputs, **kw)
                if r is NotImplemented:
                    raise TypeError(f"operand type(s) all returned NotImplemented from __array_ufunc__({self!r})")
                return r
        ops = [_operand(x) for x in inputs]
        in_dt = self._res_dtype(ops)
        n = self.__name__
        out_dt = _BOOL if (n in _CMP or n in _LOGICAL or n == "logical_not") else in_dt
        if n == "true_divide" and in_dt.kind in "iub":
            in_dt = out_dt = _F64             # numpy: true division of integers / bools is carried out in float64
        if n in _CMP and in_dt.kind in "iu" and in_dt.bits < 64 and _py_any(o[3] and o[2].kind in "iu" for o in ops):
            in_dt = _I64          # comparisons with python integers are decided on the mathematical values (no wrap to the array's type)
        if in_dt.kind in "iu" and in_dt.bits < 64 and n not in _CMP and n not in _LOGICAL and _py_any(not o[3] for o in ops):
            # NEP 50: a python integer combined with a narrower integer array must fit that type (comparisons are exempt)
            lo, hi = (0, (1 << in_dt.bits) - 1) if in_dt.kind == "u" else (-(1 << (in_dt.bits - 1)), (1 << (in_dt.bits - 1)) - 1)
            for o in ops:
                if o[3] and o[2].kind in "iu":
                    for v in o[0]:
                        if is_sym(v):
                            if z3.is_int(v) and not E().branch(z3.And(v >= lo, v <= hi)):
                                raise OverflowError(f"Python integer out of bounds for {in_dt.name}")
                        elif isinstance(v, builtins.int) and not isinstance(v, builtins.bool) and not lo <= v <= hi:
                            raise OverflowError(f"Python integer {v} out of bounds for {in_dt.name}")
        shp = ()
        for o in ops:
            shp = _bshape(shp, o[1])
        cols = [[_cast(c, o[2], in_dt) if n not in _LOGICAL else c for c in _bcells(o[0], o[1], shp)] for o in ops]
        res = [self._apply(vs, in_dt) for vs in zip(*cols)] if cols[0] or shp == () else []
        if out is not None:
            o = out[0] if isinstance(out, tuple) else out
            o[...] = ndarray(_Store(res), list(range(len(res))), shp, out_dt)
            return o
        if shp == () and _py_all(not isinstance(x, ndarray) for x in inputs):
            if _py_all(o[3] for o in ops):
                return _mkpy(res[0], out_dt)       # python scalars in, python scalar out
            return out_dt.type(res[0], _dt=out_dt)
        return ndarray(_Store(res), list(range(len(res))), shp, out_dt)

    def _acc_dtype(self, dt, dtype_arg):
        if dtype_arg is not None:
            return dtype(dtype_arg)
        n = self.__name__
        if n in ("add", "multiply") and dt.kind in "biu" :
            if dt.kind == "u":
                return uint64._dt
            return _I64
        if n in _LOGICAL:
            return _BOOL
        return dt

    def reduce(self, a, axis=0, dtype=None, keepdims=False, out=None, **kw):
        if not isinstance(a, (ndarray, generic)) and hasattr(a, "__array_ufunc__"):
            kw2 = dict(axis=axis, **kw)
            if keepdims:
                kw2["keepdims"] = keepdims
            return a.__array_ufunc__(self, "reduce", a, **kw2)
        a = asarray(a)
        dt = self._acc_dtype(a.dtype, dtype)
        idt = dt if self.__name__ not in _LOGICAL else a.dtype

        def red(cells):
            if not cells:
                if self.identity is None:
                    raise ValueError(f"zero-size array to reduction operation {self.__name__} which has no identity")
                return _cast(self.identity, _pydt(self.identity), dt)
            cur = cells[0]
            if self.__name__ in _LOGICAL:
                cur = _as_bool_term(cur) if is_sym(cur) else builtins.bool(cur)
            for c in cells[1:]:
                cur = self._apply([cur, c], idt)
            return cur

        cells = [_cast(c, a.dtype, idt) for c in a._cells()]
        if axis is None or a.ndim <= 1:
            return dt.type(red(cells), _dt=dt)
        assert a.ndim == 2
        nested = _nest(cells, a.shape)
        if axis in (-1, 1):
            res = [red(r) for r in nested]
        else:
            res = [red([nested[i][j] for i in range(a.shape[0])]) for j in range(a.shape[1])]
        r = ndarray(_Store(res), list(range(len(res))), (len(res),), dt)
        if keepdims:
            r = r[:, None] if axis in (-1, 1) else r[None, :]
        return r

    def accumulate(self, a, axis=0, dtype=None, out=None):
        if not isinstance(a, (ndarray, generic)) and hasattr(a, "__array_ufunc__"):
            return a.__array_ufunc__(self, "accumulate", a, axis=axis)
        a = asarray(a)
        dt = self._acc_dtype(a.dtype, dtype)
        assert a.ndim == 1
        cells = [_cast(c, a.dtype, dt) for c in a._cells()]
        res = []
        for c in cells:
            res.append(c if not res else self._apply([res[-1], c], dt))
        r = ndarray(_Store(res), list(range(len(res))), a.shape, dt)
        if out is not None:
            out[...] = r
            return out
        return r

    def reduceat(self, a, indices, axis=0, dtype=None):
        a, idx = asarray(a), asarray(indices)
        dt = self._acc_dtype(a.dtype, dtype)
        cells = [_cast(c, a.dtype, dt) for c in a._cells()]
        n = len(cells)
        ii = idx._cells()
        for i in ii:
            ok = _and(_cmp("ge", i, 0, _I64), _cmp("lt", i, n, _I64))
            if not E().branch(ok) if is_sym(ok) else not ok:
                raise IndexError(f"index out-of-bounds in {self.__name__}.reduceat [0, {n})")
        res = []
        for k, i in enumerate(ii):
            j = ii[k + 1] if k + 1 < len(ii) else n
            # reduce a[i:j] if i<j else a[i]
            cur = None
            for p in range(n):
                inseg = _and(_cmp("le", i, p, _I64), _cmp("lt", p, j, _I64))
                first = _eq(i, p)
                if cur is None:
                    cur = cells[p]  # placeholder; overwritten when first hits
                    cur = _ite(first, cells[p], cur)
                else:
                    cur = _ite(first, cells[p], _ite(inseg, self._apply([cur, cells[p]], dt), cur))
            res.append(cur)
        return ndarray(_Store(res), list(range(len(res))), (len(res),), dt)

    def at(self, a, indices, b=None):
        idx = asarray(indices)
        n = a.shape[0]
        ii = [_wrap_index(i, n) for i in idx._cells()] if idx.ndim else [_wrap_index(idx._cells()[0], n)]
        vals = _bcast_vals(b, (len(ii),), a.dtype)
        cells = a._store.cells
        for q, p in enumerate(a._pos):
            cur = cells[p]
            for i, v in zip(ii, vals):
                cur = _ite(_eq(i, q), self._apply([cur, v], a.dtype), cur)
            cells[p] = cur


for _name, _nin in [("add", 2), ("subtract", 2), ("multiply", 2), ("floor_divide", 2), ("true_divide", 2), ("remainder", 2),
                    ("bitwise_xor", 2), ("bitwise_and", 2), ("bitwise_or", 2), ("left_shift", 2), ("right_shift", 2),
                    ("maximum", 2), ("minimum", 2), ("fmax", 2), ("fmin", 2), ("less", 2), ("less_equal", 2), ("greater", 2), ("greater_equal", 2),
                    ("equal", 2), ("not_equal", 2), ("logical_and", 2), ("logical_or", 2), ("logical_xor", 2), ("power", 2),
                    ("negative", 1), ("absolute", 1), ("sign", 1), ("invert", 1), ("logical_not", 1), ("sqrt", 1)]:
    globals()[_name] = ufunc(_name, _nin)
def _uf_apply(a, b, dt):
    a, b = _to_bv(a, dt), _to_bv(b, dt)
    f = z3.Function("uf_f%d" % dt.bits, a.sort(), b.sort(), a.sort())
    return f(a, b)


_UF_IMPL["uf_f"] = _uf_apply
uf_f = ufunc("uf_f", 2)
abs = absolute
mod = remainder
divide = true_divide

# in-place operators on ndarray
for _n, _u in _OPS.items():
    if _n not in ("__lt__", "__le__", "__gt__", "__ge__", "__eq__", "__ne__"):
        def _mk_i(u):
            def f(self, other):
                r = globals()[u](self, other)
                self[...] = r.astype(self.dtype) if isinstance(r, ndarray) else r
                return self
            return f
        setattr(ndarray, "__i" + _n[2:], _mk_i(_u))
ndarray.__hash__ = None


# ------------------------------------------------------------------ array functions
def _dispatch(func, relevant, kwargs, args=None):
    for x in relevant:
        if not isinstance(x, (ndarray, generic)) and hasattr(x, "__array_function__"):
            types = tuple({type(r) for r in relevant if hasattr(r, "__array_function__")})
            r = x.__array_function__(func, types, args if args is not None else tuple(relevant), kwargs)
            if r is NotImplemented:
                raise TypeError(f"no implementation found for {func.__name__}")
            return r
    return NotImplemented


def _has_af(x):
    return not isinstance(x, (ndarray, generic)) and hasattr(x, "__array_function__")


def _method_fallback(a, name, axis):
    """numpy's _wrapreduction: an object that is not an ndarray and has a method of the reduction's name gets that method called"""
    if isinstance(a, (ndarray, generic, list, tuple, builtins.int, builtins.float, builtins.bool, SymPy)) or _has_af(a):
        return None
    m = getattr(a, name, None)
    if m is None or not callable(m):
        return None
    return lambda: m(axis=axis, out=None)


def concatenate(arrays, axis=0, dtype=None):
    arrays = list(arrays)
    if _py_any(_has_af(a) for a in arrays):
        kw = {} if axis == 0 else {"axis": axis}
        return _dispatch(concatenate, arrays, kw, args=(arrays,))
    arrs = [asarray(a) for a in arrays]
    assert arrs, "need at least one array to concatenate"
    dt = _promote_all([a.dtype for a in arrs]) if dtype is None else globals()["dtype"](dtype)
    if arrs[0].ndim == 1:
        cells = [_cast(c, a.dtype, dt) for a in arrs for c in a._cells()]
        return ndarray(_Store(cells), list(range(len(cells))), (len(cells),), dt)
    assert arrs[0].ndim == 2
    if axis == 0:
        ncol = arrs[0].shape[1]
        assert _py_all(a.shape[1] == ncol for a in arrs)
        cells = [_cast(c, a.dtype, dt) for a in arrs for c in a._cells()]
        return ndarray(_Store(cells), list(range(len(cells))), (len(cells) // ncol if ncol else _py_sum(a.shape[0] for a in arrs), ncol), dt)
    nrow = arrs[0].shape[0]
    rows = [[] for _ in range(nrow)]
    for a in arrs:
        for r, row in zip(rows, _nest([_cast(c, a.dtype, dt) for c in a._cells()], a.shape)):
            r.extend(row)
    ncol = _py_sum(a.shape[1] for a in arrs)
    cells = [c for r in rows for c in r]
    return ndarray(_Store(cells), list(range(len(cells))), (nrow, ncol), dt)


def hstack(tup):
    tup = [atleast_1d(t) for t in tup]
    return concatenate(tup, axis=0 if tup[0].ndim == 1 else 1)


def vstack(tup):
    tup = [asarray(t) for t in tup]
    tup = [t.reshape(1, -1) if t.ndim == 1 else t for t in tup]
    return concatenate(tup, axis=0)


def append(a, v):
    return concatenate([asarray(a).ravel(), asarray(v).ravel()])


def insert(a, pos, v):
    a = asarray(a)
    assert a.ndim == 1 and isinstance(pos, builtins.int)
    v = asarray(v).ravel().astype(a.dtype)
    return concatenate([a[:pos], v, a[pos:]])


def pad(a, pad_width, mode="constant", constant_values=0):
    a = asarray(a)
    assert a.ndim == 1
    l, r = (pad_width, pad_width) if isinstance(pad_width, builtins.int) else pad_width
    cl, cr = (constant_values, constant_values) if not isinstance(constant_values, tuple) else constant_values
    return concatenate([full(int(l), cl, a.dtype), a, full(int(r), cr, a.dtype)])


def delete(a, idx):
    a = asarray(a)
    idx = asarray(idx)
    ii = [int(i) for i in idx._cells()] if _py_all(not is_sym(i) for i in idx._cells()) else None
    if ii is None:
        n = a.size
        idxs = [_wrap_index(i, n) for i in idx._cells()]
        keep = [_and(*[_not(_eq(i, k)) for i in idxs]) for k in range(n)]
        vals, cnt = _compact(keep, a._cells())
        return ndarray(_Store(list(vals)), list(range(cnt)), (cnt,), a.dtype)
    keep = [k for k in range(a.size) if k not in set(x % a.size for x in ii)]
    return a[keep] if keep else a[:0]


def cumsum(a, axis=None, dtype=None, out=None):
    if _has_af(a):
        kw = {}
        if axis is not None:
            kw["axis"] = axis
        if dtype is not None:
            kw["dtype"] = dtype
        return _dispatch(cumsum, (a,), kw)
    return add.accumulate(asarray(a).ravel() if axis is None else asarray(a), dtype=dtype, out=out)


def diff(a, n=1, axis=-1):
    if _has_af(a):
        return _dispatch(diff, (a,), dict(n=n, axis=axis))
    a = asarray(a)
    for _ in range(n):
        a = a[1:] - a[:-1] if a.dtype.kind != "b" else a[1:] != a[:-1]
    return a


def sum(a, axis=None, dtype=None, keepdims=False):
    if _has_af(a):
        kw = {}
        if axis is not None:
            kw["axis"] = axis
        return _dispatch(sum, (a,), kw)
    fb = _method_fallback(a, "sum", axis)
    if fb is not None:
        return fb()
    return add.reduce(asarray(a), axis=axis, dtype=dtype, keepdims=keepdims)


def all(a, axis=None):
    if _has_af(a):
        return _dispatch(all, (a,), {} if axis is None else {"axis": axis})
    fb = _method_fallback(a, "all", axis)
    if fb is not None:
        return fb()
    if isinstance(a, builtins.bool):
        return a
    return logical_and.reduce(asarray(a), axis=axis)


def any(a, axis=None):
    if _has_af(a):
        return _dispatch(any, (a,), {} if axis is None else {"axis": axis})
    fb = _method_fallback(a, "any", axis)
    if fb is not None:
        return fb()
    if isinstance(a, builtins.bool):
        return a
    return logical_or.reduce(asarray(a), axis=axis)


def max(a, axis=None):
    if _has_af(a):
        return _dispatch(max, (a,), {} if axis is None else {"axis": axis})
    fb = _method_fallback(a, "max", axis)
    if fb is not None:
        return fb()
    return maximum.reduce(asarray(a), axis=axis)


def min(a, axis=None):
    if _has_af(a):
        return _dispatch(min, (a,), {} if axis is None else {"axis": axis})
    fb = _method_fallback(a, "min", axis)
    if fb is not None:
        return fb()
    return minimum.reduce(asarray(a), axis=axis)


amax, amin = max, min


def where(c, x=None, y=None):
    if _has_af(c) or _has_af(x) or _has_af(y):
        return _dispatch(where, (c, x, y), {})
    oc, ox, oy = _operand(c), _operand(x), _operand(y)
    dt = ufunc("add", 2)._res_dtype([ox, oy])
    shp = _bshape(_bshape(oc[1], ox[1]), oy[1])
    cc = _bcells(oc[0], oc[1], shp)
    xx = [_cast(v, ox[2], dt) for v in _bcells(ox[0], ox[1], shp)]
    yy = [_cast(v, oy[2], dt) for v in _bcells(oy[0], oy[1], shp)]
    res = [_ite(_as_bool_term(a) if is_sym(a) else builtins.bool(a), b, d) for a, b, d in zip(cc, xx, yy)]
    if shp == ():
        return dt.type(res[0], _dt=dt)
    return ndarray(_Store(res), list(range(len(res))), shp, dt)


def flatnonzero(a):
    a = asarray(a).ravel()
    m = [(_as_bool_term(c) if is_sym(c) else builtins.bool(c)) for c in a._cells()]
    vals, cnt = _compact(m, list(range(len(m))))
    return ndarray(_Store(list(vals)), list(range(cnt)), (cnt,), _I64)


def nonzero(a):
    if _has_af(a):
        return _dispatch(nonzero, (a,), {})
    a = asarray(a)
    assert a.ndim == 1
    return (flatnonzero(a),)


def searchsorted(a, v, side="left"):
    a = asarray(a)
    scalar = not isinstance(v, (ndarray, list))
    vv = asarray(v)
    cells = a._cells()
    out = []
    # NOTE: defined as a count => assumes `a` sorted (obligation recorded)
    st = E().stats
    st["searchsorted_sorted_obligations"] = st.get("searchsorted_sorted_obligations", 0) + 1
    for x in vv._cells():
        cnt = 0
        for c in cells:
            cond = _cmp("lt", c, x, a.dtype) if side == "left" else _cmp("le", c, x, a.dtype)
            cnt = _arith("add", cnt, _ite(cond, 1, 0))
        out.append(cnt)
    if scalar and vv.ndim == 0:
        return int64(out[0], _dt=_I64)
    return ndarray(_Store(out), list(range(len(out))), vv.shape, _I64)


def _ranks(keys_list, dts):
    """stable rank of each position under lexicographic keys (last key primary, as lexsort)."""
    n = len(keys_list[0])
    ranks = []
    for i in range(n):
        r = 0
        for j in range(n):
            if i == j:
                continue
            # j before i ?
            lt, eq = False, True
            for ks, dt in zip(reversed(keys_list), reversed(dts)):
                lt = _or(lt, _and(eq, _cmp("lt", ks[j], ks[i], dt)))
                eq = _and(eq, _cmp("eq", ks[j], ks[i], dt) if dt.kind == "f" else _eq(ks[j], ks[i]))     # floats: -0.0 == +0.0
            before = _or(lt, _and(eq, j < i))
            r = _arith("add", r, _ite(before, 1, 0))
        ranks.append(r)
    return ranks


def _perm_from_ranks(ranks):
    n = len(ranks)
    if _py_all(not is_sym(r) for r in ranks):
        out = [None] * n
        for i, r in enumerate(ranks):
            out[r] = i
        return out
    out = []
    for k in range(n):
        cur = n - 1
        for i in range(n - 2, -1, -1):
            cur = _ite(_eq(ranks[i], k), i, cur)
        out.append(cur)
    return out


def argsort(a, kind=None):
    a = asarray(a)
    assert a.ndim == 1
    cells = a._cells()
    n = len(cells)
    if kind in (None, "quicksort") and n > 1 and _py_any(is_sym(c) for c in cells):
        # unstable by contract: ANY permutation that sorts the keys (fresh symbolic permutation)
        e = E()
        # unspecified but deterministic: the same input (same cells) gets the same permutation within a path
        memo = e.notes.setdefault("argsort_memo", {})
        mkey = tuple((c.get_id() if is_sym(c) else ("c", c)) for c in cells)
        if mkey in memo:
            return ndarray(_Store(list(memo[mkey][0])), list(range(n)), (n,), _I64)
        perm = [e.fresh_int("perm", 0, n - 1) for _ in range(n)]
        memo[mkey] = (perm, cells)
        e.add(z3.Distinct(*perm))
        sel = [_select(cells, p) for p in perm]
        for i in range(n - 1):
            e.add(_cmp("le", sel[i], sel[i + 1], a.dtype))
        return ndarray(_Store(perm), list(range(n)), (n,), _I64)
    perm = _perm_from_ranks(_ranks([cells], [a.dtype]))
    return ndarray(_Store(perm), list(range(a.size)), (a.size,), _I64)


def lexsort(keys):
    keys = [asarray(k) for k in keys]
    perm = _perm_from_ranks(_ranks([k._cells() for k in keys], [k.dtype for k in keys]))
    return ndarray(_Store(perm), list(range(len(perm))), (len(perm),), _I64)


def sort(a, kind=None, axis=-1):
    a = asarray(a)
    return a[argsort(a)]


def unique(a, return_counts=False, return_index=False, axis=None):
    if _has_af(a):
        kw = dict(return_counts=return_counts)
        if axis is not None:
            kw["axis"] = axis
        return _dispatch(unique, (a,), kw)
    a = asarray(a).ravel()
    n = a.size
    perm = argsort(a, kind="mergesort" if return_index else None)     # numpy sorts stably when it has to report first occurrences
    s = a[perm]
    sc = s._cells()
    first = [True] + [(_cmp("ne", sc[i], sc[i - 1], a.dtype) if a.dtype.kind == "f" else _not(_eq(sc[i], sc[i - 1]))) for i in range(1, n)] if n else []
    vals, cnt = _compact(first, sc)
    u = ndarray(_Store(list(vals)), list(range(cnt)), (cnt,), a.dtype)
    outs = [u]
    if return_index:
        iv, _ = _compact(first, perm._cells())
        outs.append(ndarray(_Store(list(iv)), list(range(cnt)), (cnt,), _I64))
    if return_counts:
        starts, _ = _compact(first, list(range(n)))
        ends = list(starts[1:]) + [n]
        cs = [_arith("sub", e, s_) for s_, e in zip(starts, ends)]
        outs.append(ndarray(_Store(cs), list(range(cnt)), (cnt,), _I64))
    return outs[0] if len(outs) == 1 else tuple(outs)


def union1d(a, b):
    return unique(concatenate([asarray(a).ravel(), asarray(b).ravel()]))


def bincount(x, weights=None, minlength=0):
    x = asarray(x)
    xs = x._cells()
    minlength = int(minlength)
    if xs:
        mx = xs[0]
        for c in xs[1:]:
            mx = _ite(_cmp("ge", mx, c, _I64), mx, c)
        size_t = _ite(_cmp("ge", _arith("add", mx, 1), minlength, _I64), _arith("add", mx, 1), minlength)
        size = E().concretize(size_t) if is_sym(size_t) else size_t
    else:
        size = minlength
    w = asarray(weights)._cells() if weights is not None else None
    out = []
    wfloat = weights is not None and asarray(weights).dtype.kind == "f"
    for k in range(size):
        acc = 0.0 if wfloat else 0
        for i, c in enumerate(xs):
            if wfloat:
                acc = _ite(_eq(c, k), _fp_apply("add", [acc, w[i]], _F64), acc)     # numpy adds the weights in input order, in float64
            else:
                acc = _arith("add", acc, _ite(_eq(c, k), 1 if w is None else w[i], 0))
        out.append(acc)
    if w is not None:
        # numpy accumulates weighted counts in float64: the exact integer sum converted to float (exact below 2^53; the harness bounds
        # keep sums far below), carried as an int->float conversion term so that int(float(x)) round trips stay exact
        wdt = asarray(weights).dtype
        src = wdt if wdt.kind in "iub" else _I64
        out = [(_to_float_bits(c, _I64, _F64) if is_sym(c) else float(c)) for c in out] if wdt.kind != "f" else out
        return ndarray(_Store(out), list(range(size)), (size,), _F64)
    return ndarray(_Store(out), list(range(size)), (size,), _I64)


def repeat(a, repeats):
    a = asarray(a).ravel()
    r = asarray(repeats)
    rcells = r._cells()
    if r.ndim == 0 or (r.ndim == 1 and len(rcells) == 1 and a.size != 1):
        rcells = [rcells[0]] * a.size          # one count for every element
    elif len(rcells) != a.size:
        raise ValueError("operands could not be broadcast together with shape (%d,) (%d,)" % (a.size, len(rcells)))
    tot_t = 0
    for c in rcells:
        tot_t = _arith("add", tot_t, c)
    tot = E().concretize(tot_t) if is_sym(tot_t) else tot_t
    ends, run = [], 0
    for c in rcells:
        run = _arith("add", run, c)
        ends.append(run)
    vals = a._cells()
    out = []
    for p in range(tot):
        cur = vals[-1] if vals else 0
        for i in range(len(vals) - 2, -1, -1):
            cur = _ite(_cmp("gt", ends[i], p, _I64), vals[i], cur)
        out.append(cur)
    return ndarray(_Store(out), list(range(tot)), (tot,), a.dtype)


def tile(a, reps):
    a = asarray(a)
    return concatenate([a] * int(reps)) if int(reps) else a[:0]


def reshape(a, shape):
    return asarray(a).reshape(shape)


def isscalar(x):
    return isinstance(x, (generic, SymPy, builtins.int, builtins.float, builtins.bool))


class _Lib:
    class mixins:
        class NDArrayOperatorsMixin:
            __array_priority__ = 1000.0
    class stride_tricks:
        @staticmethod
        def as_strided(*a, **k):
            raise ShimUnsupported("as_strided")


for _n, _u in _OPS.items():
    def _mk_b(u, refl):
        def f(self, other):
            uf = globals()[u]
            return uf(other, self) if refl else uf(self, other)
        return f
    setattr(_Lib.mixins.NDArrayOperatorsMixin, _n, _mk_b(_u, False))
    if _n not in ("__lt__", "__le__", "__gt__", "__ge__", "__eq__", "__ne__"):
        setattr(_Lib.mixins.NDArrayOperatorsMixin, "__r" + _n[2:], _mk_b(_u, True))
        setattr(_Lib.mixins.NDArrayOperatorsMixin, "__i" + _n[2:], _mk_b(_u, False))
_Lib.mixins.NDArrayOperatorsMixin.__neg__ = lambda self: negative(self)
_Lib.mixins.NDArrayOperatorsMixin.__invert__ = lambda self: invert(self)
_Lib.mixins.NDArrayOperatorsMixin.__abs__ = lambda self: absolute(self)
lib = _Lib


def histogram(*a, **k):
    raise ShimUnsupported("histogram")


def mean(a, axis=None):
    if _has_af(a):
        return _dispatch(mean, (a,), {} if axis is None else {"axis": axis})
    a = asarray(a)
    if axis is not None and a.ndim > 1:
        raise ShimUnsupported("mean over an axis of an nd array")
    if a.size == 0:
        raise ShimUnsupported("mean of an empty array")
    f = a.ravel() if a.dtype.kind == "f" else a.ravel().astype(float64)     # numpy reduces integers with dtype=float64
    return true_divide(add.reduce(f, axis=None), a.size)


def std(*a, **k):
    raise ShimUnsupported("std")


def _arg_extreme(a, op):
    a = asarray(a)
    if a.ndim != 1 or a.size == 0:
        raise ShimUnsupported("arg%s on nd/empty" % op)
    cells = a._cells()
    best = len(cells) - 1
    for i in range(len(cells) - 2, -1, -1):
        # i is the answer if nothing beats it and nothing before it ties (first extreme wins)
        cond = _and(*[_not(_cmp("gt" if op == "max" else "lt", cells[j], cells[i], a.dtype)) for j in range(len(cells)) if j != i],
                    *[_cmp("gt" if op == "max" else "lt", cells[i], cells[j], a.dtype) for j in range(i)])
        best = _ite(cond, i, best)
    return int64(best, _dt=_I64)


def argmax(a, axis=None):
    if _has_af(a):
        return _dispatch(argmax, (a,), {} if axis is None else {"axis": axis})
    return _arg_extreme(a, "max")


def argmin(a, axis=None):
    if _has_af(a):
        return _dispatch(argmin, (a,), {} if axis is None else {"axis": axis})
    return _arg_extreme(a, "min")


def prod(a, axis=None):
    if _has_af(a):
        return _dispatch(prod, (a,), {} if axis is None else {"axis": axis})
    return multiply.reduce(asarray(a), axis=axis)


_FILES = {}


def savez(file, **arrays):
    """environment stub (DESIGN 3.2.7): numpy's documented round trip -- equal, unaliased arrays by name"""
    _FILES[str(file)] = {k: asarray(v).copy() for k, v in arrays.items()}


def load(file, **kw):
    if str(file) not in _FILES:
        raise FileNotFoundError(str(file))
    return {k: v.copy() for k, v in _FILES[str(file)].items()}


def broadcast(*a):
    raise ShimUnsupported("broadcast")


__version__ = "0-shim"


def array_equal(a, b):
    a, b = asarray(a), asarray(b)
    return a.shape == b.shape and builtins.bool(all(a == b)) if a.size else a.shape == b.shape


def allclose(a, b, **kw):
    a, b = asarray(a), asarray(b)
    return _py_all(_py_abs(float(x) - float(y)) <= 1e-8 + 1e-5 * _py_abs(float(y)) for x, y in zip(broadcast_to(a, _bshape(a.shape, b.shape))._cells(), broadcast_to(b, _bshape(a.shape, b.shape))._cells()))


class _Random:
    import random as _r
    _rng = _r.Random(0)

    @classmethod
    def seed(cls, s):
        cls._rng = cls._r.Random(s)

    @classmethod
    def randint(cls, lo, hi=None, size=None, dtype=None):
        if hi is None:
            lo, hi = 0, lo
        n = _prod(_shape_arg(size)) if size is not None else 1
        vals = [cls._rng.randrange(lo, hi) for _ in range(n)]
        if size is None:
            return int64(vals[0])
        return array(vals, dtype=dtype or int64).reshape(_shape_arg(size))


random = _Random


def binary_repr(x, width=None):
    s = bin(int(x))[2:]
    return s.zfill(width) if width else s


def ascontiguousarray(a, dtype=None):
    a = asarray(a, dtype=dtype)
    if a._contig:
        return a
    return ndarray(_Store(a._cells()), list(range(a.size)), a.shape, a.dtype)


def histogram(a, bins=10, range=None, density=None, weights=None):
    """Uniform bins over an explicit or data-derived range; integer data (cells symbolic), integer weights (symbolic) or none.
    Bin edges are concrete IEEE doubles computed as numpy's linspace computes them (a data-derived range is made concrete by forking);
    bin membership and the weighted counts are symbolic integer terms.  With density the counts are made concrete by forking and the
    quotients n / db / n.sum() are computed in IEEE double arithmetic."""
    if _has_af(a):
        return _dispatch(histogram, (a,), dict(bins=bins, range=range, density=density, weights=weights), args=(a,))
    import math
    a = asarray(a)
    if a.dtype.kind not in "iub":
        raise ShimUnsupported("histogram of non-integer data")
    def num(c, dt):
        if is_sym(c) and z3.is_bv(c):
            return _bv_to_int(c) if dt.kind == "i" else z3.BV2Int(c, is_signed=False)
        if is_sym(c) and z3.is_bool(c):
            return z3.If(c, 1, 0)
        return c if is_sym(c) else builtins.int(c)
    xs = [num(c, a.dtype) for c in a.ravel()._cells()]
    w = None
    if weights is not None:
        wa = asarray(weights)
        if wa.shape != a.shape:
            raise ValueError("weights should have the same shape as a.")
        if wa.dtype.kind not in "iu":
            raise ShimUnsupported("histogram with non-integer weights")
        w = [num(c, wa.dtype) for c in wa.ravel()._cells()]
    if not isinstance(bins, builtins.int) or isinstance(bins, builtins.bool):
        raise ShimUnsupported("histogram with explicit bin edges")
    if bins < 1:
        raise ValueError("`bins` must be positive, when an integer")
    if range is not None:
        lo, hi = range
        lo, hi = builtins.float(lo), builtins.float(hi)
        if lo > hi:
            raise ValueError("max must be larger than min in range parameter.")
    elif not xs:
        lo, hi = 0.0, 1.0
    else:
        mn, mx = xs[0], xs[0]
        for c in xs[1:]:
            mn = _ite(_cmp("le", mn, c, _I64), mn, c)
            mx = _ite(_cmp("ge", mx, c, _I64), mx, c)
        lo = builtins.float(E().concretize(mn) if is_sym(mn) else mn)
        hi = builtins.float(E().concretize(mx) if is_sym(mx) else mx)
    if lo == hi:
        lo, hi = lo - 0.5, hi + 0.5
    step = (hi - lo) / bins
    edges = [i * step + lo for i in builtins.range(bins + 1)]
    edges[-1] = hi
    # integer v: v >= e  <=>  v >= ceil(e);  v < e  <=>  v < ceil(e);  v <= e  <=>  v <= floor(e)
    counts = []
    for i in builtins.range(bins):
        acc = 0
        for j, v in enumerate(xs):
            lo_ok = _cmp("ge", v, math.ceil(edges[i]), _I64)
            hi_ok = _cmp("le", v, math.floor(edges[i + 1]), _I64) if i == bins - 1 else _cmp("lt", v, math.ceil(edges[i + 1]), _I64)
            acc = _arith("add", acc, _ite(_and(lo_ok, hi_ok), 1 if w is None else w[j], 0))
        counts.append(acc)
    e_arr = ndarray(_Store(list(edges)), list(builtins.range(bins + 1)), (bins + 1,), _F64)
    if not density:
        return ndarray(_Store(counts), list(builtins.range(bins)), (bins,), _I64), e_arr
    n = [builtins.float(E().concretize(c) if is_sym(c) else c) for c in counts]
    tot = 0.0
    for c in n:
        tot += c
    dens = []
    for i, c in enumerate(n):
        db = edges[i + 1] - edges[i]
        try:
            q = c / db
        except ZeroDivisionError:
            q = math.nan if c == 0 else math.copysign(math.inf, c)
        try:
            q = q / tot
        except ZeroDivisionError:
            q = math.nan if q == 0 or q != q else math.copysign(math.inf, q)
        dens.append(q)
    return ndarray(_Store(dens), list(builtins.range(bins)), (bins,), _F64), e_arr


def fromiter(iterable, dtype, count=-1):
    """1-D array from an iterable, every element cast to dtype (unsafe casting, like numpy)"""
    items = list(iterable)
    if count is not None and count >= 0:
        if len(items) < count:
            raise ValueError("iterator too short")
        items = items[:count]
    dt = _dtype_of(dtype) if "_dtype_of" in globals() else globals()["dtype"](dtype)
    if not items:
        return zeros(0, dtype=dt)
    return concatenate([asarray(x).reshape(1) for x in items]).astype(dt)


class iinfo:
    """machine limits of an integer type"""
    def __init__(self, t):
        dt = globals()["dtype"](t.dtype if hasattr(t, "dtype") and not isinstance(t, type) else t)
        if dt.kind not in "iu":
            raise ValueError("Invalid integer data type %r." % dt.kind)
        self.dtype, self.bits, self.kind = dt, dt.bits, dt.kind
        self.min = 0 if dt.kind == "u" else -(1 << (dt.bits - 1))
        self.max = (1 << dt.bits) - 1 if dt.kind == "u" else (1 << (dt.bits - 1)) - 1


nan, inf = float("nan"), float("inf")
