"""symx: re-execution DFS symbolic executor over z3 (see DESIGN.md section 3.1).

A harness is a python function h(E) that creates symbolic inputs through E.int/E.bv/E.bool, runs the
repository's real code on the symbolic numpy shim, and returns a result dict.  Only three things fork:
bool() of a symbolic condition (E.branch), a request for a concrete python int (E.concretize), and
bounds checks on symbolic indices (done by the shim through E.branch).  Every alternative's feasibility is
decided by the solver; exhaustion of the decision tree licenses "holds for all inputs within the bounds".
"""
import os
import time
import z3

from . import solve


def _fp(t):
    """order-insensitive fingerprint of a term (z3's simplifier orders commutative arguments by AST id, which differs between
    re-executions): the sorted multiset of tokens of its s-expression"""
    if os.environ.get("VERIF_DEBUG_FP"):
        return " ".join(sorted(t.sexpr().replace("(", " ").replace(")", " ").split()))
    return hash(tuple(sorted(t.sexpr().replace("(", " ").replace(")", " ").split())))


class PathPruned(BaseException):
    """Abandon an infeasible / excluded path (BaseException: repo code must not swallow it)."""


class Unknown(BaseException):
    """Solver gave up, budget exhausted, or something the encoding cannot express: INCONCLUSIVE."""


RESET_HOOKS = []       # callables clearing per-path caches


class Node:
    """a *forking* decision: two or more feasible alternatives, each with a model of (path condition so far + that alternative)"""
    __slots__ = ("alts", "i", "kind", "models")

    def __init__(self, alts, kind, models):
        self.alts = alts
        self.i = 0
        self.kind = kind
        self.models = models


def _pyval(v):
    if z3.is_true(v):
        return True
    if z3.is_false(v):
        return False
    if z3.is_int_value(v) or z3.is_bv_value(v):
        return v.as_long()
    raise Unknown("model evaluation did not produce a value: %s" % str(v)[:200])


class Engine:
    """Replay is *model guided* (see DESIGN 10.6): the stack holds only forking decisions; to re-reach the deepest node whose next
    alternative is to be explored, the harness is re-executed and every symbolic decision on the way is answered by evaluating its
    condition under two models -- the model stored for the alternative explored last (M_prev) and the one for the alternative to explore
    now (M_new).  Both satisfy the whole path condition up to that node, so they agree on every decision before it (those are either
    implied by the path condition or earlier choices the path condition fixes) and disagree exactly at the node.  No step relies on two
    executions producing syntactically equal terms (z3's simplifier does not: its normal forms depend on AST ids)."""

    def __init__(self, timeout_ms=20000, max_paths=200000, deadline=None):
        self.timeout_ms = timeout_ms
        self.max_paths = max_paths
        self.deadline = deadline
        self.stack = []
        self.replay = None
        self.stats = dict(paths=0, pruned=0, checks=0, solver_s=0.0, forks_bool=0, forks_int=0, queries=0,
                          unknown=0, model_hits=0, max_check_s=0.0, decisions=0, by_backend={}, replayed_decisions=0)
        self.reset_path()

    # ---------------------------------------------------------------- per-path state
    def reset_path(self):
        for hook in RESET_HOOKS:
            hook()
        self._fresh_path = 0
        self.bits_reg = {}
        self.lits = []
        self._sub_n = 0
        self.assertions = []
        self.inputs = {}          # name -> z3 const (harness inputs, for case extraction)
        self._model = None        # a model of all current assertions, or None
        self.has_bv = False
        self.notes = {}
        self.inc = z3.Solver()          # incremental solver holding the path condition
        self.inc.set("timeout", int(self.timeout_ms))

    # ---------------------------------------------------------------- solver
    def _solve(self, extra=(), final=False):
        if self.deadline is not None and time.time() > self.deadline:
            raise Unknown("wall-clock budget of this job exhausted")
        t = time.time()
        r = None
        if not os.environ.get("VERIF_NO_INCREMENTAL"):
            # incremental core first (measured ~9x faster than a fresh solver per query on Int/Bool path conditions).  With bit-vector /
            # uninterpreted-function content it is only given a short budget: z3's incremental core was measured to time out on mixed
            # Int+BV64 queries that a fresh solver decides at once, so `unknown` falls through to the fresh-solver ladder below.
            self.inc.set("timeout", int(self.timeout_ms) if not self.has_bv else 150)
            self.inc.push()
            try:
                if extra:
                    self.inc.add(*extra)
                rr = self.inc.check()
                if rr == z3.sat:
                    r, m, backend = "sat", self.inc.model(), "z3-incremental"
                elif rr == z3.unsat:
                    r, m, backend = "unsat", None, "z3-incremental"
            finally:
                self.inc.pop()
        if r is None:
            r, m, backend = solve.check(list(self.assertions) + list(extra), self.timeout_ms, final=final)
        dt_ = time.time() - t
        st = self.stats
        st["solver_s"] += dt_
        st["checks"] += 1
        st["max_check_s"] = max(st["max_check_s"], dt_)
        st["by_backend"][backend] = st["by_backend"].get(backend, 0) + 1
        if r == "unknown":
            st["unknown"] += 1
            if os.environ.get("VERIF_DUMP_UNKNOWN"):
                s = z3.Solver(); s.add(self.assertions); s.add(*extra)
                open(os.path.join(os.environ["VERIF_DUMP_UNKNOWN"], "unk%d.smt2" % st["checks"]), "w").write(s.to_smt2())
            raise Unknown("solver returned unknown (%s)" % (m,))
        return r, m

    def add(self, c):
        if c is True:
            return
        if c is False:
            raise PathPruned()
        self.assertions.append(c)
        self.inc.add(c)
        if self._model is not None:
            try:
                v = self._model.eval(c, model_completion=True)
                if not z3.is_true(v):
                    self._model = None
            except z3.Z3Exception:
                self._model = None

    def model(self):
        """a model of the current path condition (None if infeasible)"""
        if self._model is None:
            r, m = self._solve()
            if r != "sat":
                return None
            self._model = m
        return self._model

    # ---------------------------------------------------------------- vars
    def fresh_name(self, base):
        self._fresh_path += 1
        return f"{base}!{self._fresh_path}"

    def int(self, name, lo=None, hi=None):
        v = z3.Int("v_" + name)
        self.inputs[name] = v
        if lo is not None:
            self.add(v >= lo)
        if hi is not None:
            self.add(v <= hi)
        return v

    def fresh_int(self, base, lo=None, hi=None):
        """internal nondeterminism (not a harness input)"""
        v = z3.Int(self.fresh_name("n_" + base))
        if lo is not None:
            self.add(v >= lo)
        if hi is not None:
            self.add(v <= hi)
        return v

    def bv(self, name, w):
        self.has_bv = True
        v = z3.BitVec("v_" + name, w)
        self.inputs[name] = v
        return v

    def bool(self, name):
        v = z3.Bool("v_" + name)
        self.inputs[name] = v
        return v

    def assume(self, c):
        if c is True:
            return
        if c is False:
            raise PathPruned()
        self.add(self.simp(c))
        if self._model is None:
            # an assumption may exclude every input of this path: prune it here rather than explore an infeasible path
            r, m = self._solve()
            if r != "sat":
                raise PathPruned()
            self._model = m

    # ---------------------------------------------------------------- decisions
    def _decide(self, kind, term, compute_alts):
        """answer a decision on a symbolic (not syntactically decided) Bool / Int / BV term"""
        if self.replay is not None:
            node, m_new, m_prev = self.replay
            a = _pyval(m_new.eval(term, model_completion=True))
            b = _pyval(m_prev.eval(term, model_completion=True))
            if a == b:
                self.stats["replayed_decisions"] += 1
                return a                      # still inside the common prefix
            # the two models part ways: this is the node whose next alternative is being explored
            if kind != node.kind or a != node.alts[node.i] or b != node.alts[node.i - 1]:
                raise Unknown("replay mis-aligned at the switched decision: %s %r/%r vs node %s %r" % (kind, a, b, node.kind, node.alts))
            self.replay = None
            return a
        alts, models = compute_alts()
        if not alts:
            raise PathPruned()
        self.stats["decisions"] += 1
        if self._model is None:
            self._model = models[0]           # a model of (path so far + the alternative taken); re-validated by the add() that follows
        if len(alts) == 1:
            return alts[0]                    # implied by the path condition: not a node
        self.stack.append(Node(alts, kind, models))
        return alts[0]

    def simp(self, t):
        """simplify modulo the literals already decided on this path"""
        if not z3.is_expr(t):
            return t
        n = len(self.lits)
        if n:
            if self._sub_n != n:      # lits only grow along a path; rebuild the C arrays lazily
                self._sub_from = (z3.Ast * n)(*[a.as_ast() for a, _ in self.lits])
                self._sub_to = (z3.Ast * n)(*[b.as_ast() for _, b in self.lits])
                self._sub_n = n
            # literals are recorded in simplified (normalised) form, so normalise before matching them
            t = z3.simplify(t)
            for _ in range(4):      # substitution is simultaneous: an equality x -> y may expose another decided literal; iterate to a fixpoint
                t2 = z3.z3._to_expr_ref(z3.Z3_substitute(t.ctx.ref(), t.as_ast(), n, self._sub_from, self._sub_to), t.ctx)
                if t2.eq(t):
                    return t
                t = z3.simplify(t2)
            return t
        return z3.simplify(t)

    def _learn(self, cond, v):
        if z3.is_not(cond):
            cond, v = cond.arg(0), not v
        self.lits.append((cond, z3.BoolVal(v)))
        if v and z3.is_eq(cond) and not z3.is_bool(cond.arg(0)):
            a, b = cond.arg(0), cond.arg(1)
            if z3.is_const(b) and b.decl().kind() == z3.Z3_OP_UNINTERPRETED:
                self.lits.append((b, a))
            elif z3.is_const(a) and a.decl().kind() == z3.Z3_OP_UNINTERPRETED:
                self.lits.append((a, b))

    def _eval_model(self, t):
        if self._model is None:
            return None
        try:
            return self._model.eval(t, model_completion=True)
        except z3.Z3Exception:
            return None

    def branch(self, cond):
        """Fork on a z3 Bool.  Returns a python bool; adds it to the path condition."""
        if isinstance(cond, bool):
            return cond
        cond = self.simp(cond)
        if z3.is_true(cond):
            return True
        if z3.is_false(cond):
            return False

        def alts():
            out, models = [], []
            known = self._eval_model(cond)
            for side, c in ((True, cond), (False, z3.Not(cond))):
                if known is not None and z3.is_true(known) == side and (z3.is_true(known) or z3.is_false(known)):
                    self.stats["model_hits"] += 1
                    out.append(side); models.append(self._model)
                    continue
                r, m = self._solve([c])
                if r == "sat":
                    out.append(side); models.append(m)
            if len(out) == 2:
                self.stats["forks_bool"] += 1
            return out, models

        v = self._decide("bool", cond, alts)
        self.add(cond if v else z3.Not(cond))
        self._learn(cond, v)
        return v

    def concretize(self, term, limit=200):
        """Fork over every feasible value of an Int/BV term."""
        if isinstance(term, (int, bool)):
            return term
        term = self.simp(term)
        if z3.is_int_value(term) or z3.is_bv_value(term):
            return term.as_long()
        if z3.is_true(term):
            return True
        if z3.is_false(term):
            return False

        def alts():
            out, models, excl = [], [], []
            m0 = self._model
            while True:
                if m0 is not None:
                    m, m0 = m0, None
                    self.stats["model_hits"] += 1
                else:
                    r, m = self._solve(excl)
                    if r != "sat":
                        break
                v = m.eval(term, model_completion=True)
                out.append(v.as_long()); models.append(m)
                excl.append(term != v)
                if len(out) > limit:
                    raise Unknown("too many values to concretize: " + str(term)[:300])
            order = sorted(range(len(out)), key=lambda i: out[i])
            out, models = [out[i] for i in order], [models[i] for i in order]
            if len(out) > 1:
                self.stats["forks_int"] += 1
            return out, models

        v = self._decide("int", term, alts)
        val = z3.IntVal(v) if z3.is_int(term) else z3.BitVecVal(v, term.size())
        self.add(term == val)
        if z3.is_const(term) and term.decl().kind() == z3.Z3_OP_UNINTERPRETED:
            self.lits.append((term, val))
        else:
            self.lits.append((term == val, z3.BoolVal(True)))
        return v

    def choose(self, name, options):
        """Harness-level fork over a python list of options (all feasible by construction)."""
        k = self.concretize(self.int("choice_" + name, 0, len(options) - 1))
        return options[k]

    def implied(self, cond):
        """True iff cond holds on every extension of the current path (no fork)."""
        if isinstance(cond, bool):
            return cond
        cond = self.simp(cond)
        if z3.is_true(cond):
            return True
        if z3.is_false(cond):
            return False
        known = self._eval_model(cond)
        if known is not None and z3.is_false(known):
            return False
        r, _ = self._solve([z3.Not(cond)])
        return r == "unsat"

    # ---------------------------------------------------------------- exploration
    def explore(self, fn, on_path):
        """Run fn(engine) on every feasible path; on_path(engine, out) judges the path and returns a dict.
        Stops at the first path whose verdict has 'stop' set."""
        results = []
        while True:
            self.reset_path()
            if self.stack:
                top = self.stack[-1]
                self.replay = (top, top.models[top.i], top.models[top.i - 1])
                self._model = top.models[top.i]        # satisfies the whole prefix: re-validated by every add()
            else:
                self.replay = None
            pruned = False
            try:
                out = fn(self)
            except PathPruned:
                pruned = True
                out = None
            if self.replay is not None:
                raise Unknown("replay ended before reaching the switched decision (non-deterministic harness?)")
            if pruned:
                self.stats["pruned"] += 1
            else:
                self.stats["paths"] += 1
                res = on_path(self, out)
                results.append(res)
                if res is not None and res.get("stop"):
                    return results
            while self.stack and self.stack[-1].i + 1 >= len(self.stack[-1].alts):
                self.stack.pop()
            if not self.stack:
                break
            self.stack[-1].i += 1
            if self.stats["paths"] >= self.max_paths:
                raise Unknown("path budget exhausted (%d)" % self.max_paths)
        return results

    def prove(self, goal):
        """On the current path: is `goal` valid?  Returns None if valid else a counter-model."""
        self.stats["queries"] += 1
        if goal is True:
            return None
        if goal is False:
            return self.model()
        goal = self.simp(goal)
        if z3.is_true(goal):
            return None
        known = self._eval_model(goal)
        if known is not None and z3.is_false(known):
            return self._model
        r, m = self._solve([z3.Not(goal)], final=True)
        if r == "unsat":
            return None
        return m

    def path_descr(self):
        return [(n.kind, n.alts[n.i]) for n in self.stack]


_current = None


def current():
    return _current


def set_current(e):
    global _current
    _current = e
