"""symx: re-execution DFS symbolic executor over z3 (see DESIGN.md section 3.1).

A harness is a python function h(E) that creates symbolic inputs through E.int/E.bv/E.bool, runs the
repository's real code on the symbolic numpy shim, and returns a result dict.  Only three things fork:
bool() of a symbolic condition (E.branch), a request for a concrete python int (E.concretize), and
bounds checks on symbolic indices (done by the shim through E.branch).  Every alternative's feasibility is
decided by the solver; exhaustion of the decision tree licenses "holds for all inputs within the bounds".
"""
import os
import time
import z3

from . import solve


def _fp(t):
    """order-insensitive fingerprint of a term (z3's simplifier orders commutative arguments by AST id, which differs between
    re-executions): the sorted multiset of tokens of its s-expression"""
    if os.environ.get("VERIF_DEBUG_FP"):
        return " ".join(sorted(t.sexpr().replace("(", " ").replace(")", " ").split()))
    return hash(tuple(sorted(t.sexpr().replace("(", " ").replace(")", " ").split())))


class PathPruned(BaseException):
    """Abandon an infeasible / excluded path (BaseException: repo code must not swallow it)."""


class Unknown(BaseException):
    """Solver gave up, budget exhausted, or something the encoding cannot express: INCONCLUSIVE."""


RESET_HOOKS = []       # callables clearing caches that hold z3 objects of the previous context


class Node:
    __slots__ = ("alts", "i", "kind", "models", "fp")

    def __init__(self, alts, kind, models=None):
        self.alts = alts
        self.i = 0
        self.kind = kind
        self.models = models or [None] * len(alts)
        self.fp = None


class Engine:
    def __init__(self, timeout_ms=20000, max_paths=200000, deadline=None):
        self.timeout_ms = timeout_ms
        self.max_paths = max_paths
        self.deadline = deadline
        self.stack = []
        self.depth = 0
        self.stats = dict(paths=0, pruned=0, checks=0, solver_s=0.0, forks_bool=0, forks_int=0, queries=0,
                          unknown=0, model_hits=0, max_check_s=0.0, decisions=0, by_backend={})
        self.reset_path()

    # ---------------------------------------------------------------- per-path state
    def reset_path(self):
        # A fresh z3 context per path: z3's simplifier orders commutative arguments (and picks normal forms) by AST id, so with a shared
        # context the *syntactic* result of simplify differs between re-executions, conditions get decided syntactically in one
        # execution and semantically in another, and the decision tree mis-aligns (measured: an unsat path was explored).  With a
        # fresh context the re-executed prefix issues the same API calls in the same order, hence the same ids and the same normal forms.
        z3.z3._main_ctx = None
        for hook in RESET_HOOKS:
            hook()
        self.depth = 0
        self._fresh_path = 0
        self.bits_reg = {}
        self.lits = []
        self._sub_n = 0
        self.assertions = []
        self.inputs = {}          # name -> z3 const (harness inputs, for case extraction)
        self._model = None        # a model of all current assertions, or None
        self.has_bv = False
        self.notes = {}
        self.inc = z3.Solver()          # incremental solver holding the path condition (used while Int-only)
        self.inc.set("timeout", int(self.timeout_ms))

    # ---------------------------------------------------------------- solver
    def _solve(self, extra=(), final=False):
        if self.deadline is not None and time.time() > self.deadline:
            raise Unknown("wall-clock budget of this job exhausted")
        t = time.time()
        r = None
        if not os.environ.get("VERIF_NO_INCREMENTAL"):
            # incremental core first (measured ~9x faster than a fresh solver per query on Int/Bool path conditions).  With bit-vector /
            # uninterpreted-function content it is only given a short budget: z3's incremental core was measured to time out on mixed
            # Int+BV64 queries that a fresh solver decides at once, so `unknown` falls through to the fresh-solver ladder below.
            self.inc.set("timeout", int(self.timeout_ms) if not self.has_bv else 150)
            self.inc.push()
            try:
                if extra:
                    self.inc.add(*extra)
                rr = self.inc.check()
                if rr == z3.sat:
                    r, m, backend = "sat", self.inc.model(), "z3-incremental"
                elif rr == z3.unsat:
                    r, m, backend = "unsat", None, "z3-incremental"
            finally:
                self.inc.pop()
        if r is None:
            r, m, backend = solve.check(list(self.assertions) + list(extra), self.timeout_ms, final=final)
        dt_ = time.time() - t
        st = self.stats
        st["solver_s"] += dt_
        st["checks"] += 1
        st["max_check_s"] = max(st["max_check_s"], dt_)
        st["by_backend"][backend] = st["by_backend"].get(backend, 0) + 1
        if r == "unknown":
            st["unknown"] += 1
            if os.environ.get("VERIF_DUMP_UNKNOWN"):
                s = z3.Solver(); s.add(self.assertions); s.add(*extra)
                open(os.path.join(os.environ["VERIF_DUMP_UNKNOWN"], "unk%d.smt2" % st["checks"]), "w").write(s.to_smt2())
            raise Unknown("solver returned unknown (%s)" % (m,))
        return r, m

    def add(self, c):
        if c is True:
            return
        if c is False:
            raise PathPruned()
        self.assertions.append(c)
        self.inc.add(c)
        if self._model is not None:
            try:
                v = self._model.eval(c, model_completion=True)
                if not z3.is_true(v):
                    self._model = None
            except z3.Z3Exception:
                self._model = None

    def model(self):
        """a model of the current path condition (None if infeasible)"""
        if self._model is None:
            r, m = self._solve()
            if r != "sat":
                return None
            self._model = m
        return self._model

    # ---------------------------------------------------------------- vars
    def fresh_name(self, base):
        self._fresh_path += 1
        return f"{base}!{self._fresh_path}"

    def int(self, name, lo=None, hi=None):
        v = z3.Int("v_" + name)
        self.inputs[name] = v
        if lo is not None:
            self.add(v >= lo)
        if hi is not None:
            self.add(v <= hi)
        return v

    def fresh_int(self, base, lo=None, hi=None):
        """internal nondeterminism (not a harness input)"""
        v = z3.Int(self.fresh_name("n_" + base))
        if lo is not None:
            self.add(v >= lo)
        if hi is not None:
            self.add(v <= hi)
        return v

    def bv(self, name, w):
        self.has_bv = True
        v = z3.BitVec("v_" + name, w)
        self.inputs[name] = v
        return v

    def bool(self, name):
        v = z3.Bool("v_" + name)
        self.inputs[name] = v
        return v

    def assume(self, c):
        if c is True:
            return
        if c is False:
            raise PathPruned()
        self.add(self.simp(c))

    # ---------------------------------------------------------------- decisions
    def _decide(self, kind, compute_alts, fingerprint=None):
        d = self.depth
        self.depth += 1
        if d < len(self.stack):
            n = self.stack[d]
            if os.environ.get("VERIF_DEBUG_DET") and getattr(self, "_dbg_term", None) is not None and n.fp is not None:
                old, new = n.fp, self._dbg_term
                if old.ctx != new.ctx:
                    old = old.translate(new.ctx)
                    n.fp = old
                if old.sort() == new.sort():
                    s_ = z3.Solver(); s_.add(self.assertions); s_.add(old != new)
                    if s_.check() == z3.sat:
                        raise Unknown("REAL nondeterminism at decision %d:\n OLD %s\n NEW %s" % (d, old.sexpr()[:800], new.sexpr()[:800]))
                else:
                    raise Unknown("REAL nondeterminism (sort) at decision %d" % d)
                return n.alts[n.i]
            if n.kind != kind:
                # the re-execution did not reach the same decision as when this node was created: the harness (or the code under
                # test) is not deterministic; exploring on would pair stored feasibility verdicts with the wrong conditions
                raise Unknown("non-deterministic re-execution at decision %d: %s/%s vs %s/%s" % (d, n.kind, n.fp, kind, fingerprint))
            return n.alts[n.i]
        alts, models = compute_alts()
        if not alts:
            raise PathPruned()
        self.stats["decisions"] += 1
        node = Node(alts, kind, models)
        node.fp = fingerprint if not os.environ.get("VERIF_DEBUG_DET") else getattr(self, "_dbg_term", None)
        self.stack.append(node)
        return alts[0]

    def _adopt(self, n, i):
        """a model stored at a decision node, translated into the current path's context"""
        m = n.models[i]
        try:
            if m.ctx != z3.main_ctx():
                m = m.translate(z3.main_ctx())
                n.models[i] = m
            return m
        except Exception:
            n.models[i] = None
            return None

    def simp(self, t):
        """simplify modulo the literals already decided on this path"""
        if not z3.is_expr(t):
            return t
        n = len(self.lits)
        if n:
            if self._sub_n != n:      # lits only grow along a path; rebuild the C arrays lazily
                self._sub_from = (z3.Ast * n)(*[a.as_ast() for a, _ in self.lits])
                self._sub_to = (z3.Ast * n)(*[b.as_ast() for _, b in self.lits])
                self._sub_n = n
            # literals are recorded in simplified (normalised) form, so normalise before matching them
            t = z3.simplify(t)
            for _ in range(4):      # substitution is simultaneous: an equality x -> y may expose another decided literal; iterate to a fixpoint
                t2 = z3.z3._to_expr_ref(z3.Z3_substitute(t.ctx.ref(), t.as_ast(), n, self._sub_from, self._sub_to), t.ctx)
                if t2.eq(t):
                    return t
                t = z3.simplify(t2)
            return t
        return z3.simplify(t)

    def _learn(self, cond, v):
        if z3.is_not(cond):
            cond, v = cond.arg(0), not v
        self.lits.append((cond, z3.BoolVal(v)))
        if v and z3.is_eq(cond) and not z3.is_bool(cond.arg(0)):
            a, b = cond.arg(0), cond.arg(1)
            if z3.is_const(b) and b.decl().kind() == z3.Z3_OP_UNINTERPRETED:
                self.lits.append((b, a))
            elif z3.is_const(a) and a.decl().kind() == z3.Z3_OP_UNINTERPRETED:
                self.lits.append((a, b))

    def _eval_model(self, t):
        if self._model is None:
            return None
        try:
            return self._model.eval(t, model_completion=True)
        except z3.Z3Exception:
            return None

    def branch(self, cond):
        """Fork on a z3 Bool.  Returns a python bool; adds it to the path condition."""
        if isinstance(cond, bool):
            return cond
        cond = self.simp(cond)
        if z3.is_true(cond):
            return True
        if z3.is_false(cond):
            return False

        def alts():
            out, models = [], []
            known = self._eval_model(cond)
            for side, c in ((True, cond), (False, z3.Not(cond))):
                if known is not None and z3.is_true(known) == side and (z3.is_true(known) or z3.is_false(known)):
                    self.stats["model_hits"] += 1
                    out.append(side); models.append(self._model)
                    continue
                r, m = self._solve([c])
                if r == "sat":
                    out.append(side); models.append(m)
            if len(out) == 2:
                self.stats["forks_bool"] += 1
            return out, models

        self._dbg_term = cond
        v = self._decide("bool", alts, None)
        n = self.stack[self.depth - 1]
        if self._model is None and n.models[n.i] is not None:
            self._model = self._adopt(n, n.i)
        self.add(cond if v else z3.Not(cond))
        self._learn(cond, v)
        return v

    def concretize(self, term, limit=200):
        """Fork over every feasible value of an Int/BV term."""
        if isinstance(term, (int, bool)):
            return term
        term = self.simp(term)
        if z3.is_int_value(term) or z3.is_bv_value(term):
            return term.as_long()
        if z3.is_true(term):
            return True
        if z3.is_false(term):
            return False

        def alts():
            out, models, excl = [], [], []
            m0 = self._model
            while True:
                if m0 is not None:
                    m, m0 = m0, None
                    self.stats["model_hits"] += 1
                else:
                    r, m = self._solve(excl)
                    if r != "sat":
                        break
                v = m.eval(term, model_completion=True)
                out.append(v.as_long()); models.append(m)
                excl.append(term != v)
                if len(out) > limit:
                    raise Unknown("too many values to concretize: " + str(term)[:300])
            order = sorted(range(len(out)), key=lambda i: out[i])
            out, models = [out[i] for i in order], [models[i] for i in order]
            if len(out) > 1:
                self.stats["forks_int"] += 1
            return out, models

        self._dbg_term = term
        v = self._decide("int", alts, None)
        n = self.stack[self.depth - 1]
        if self._model is None and n.models[n.i] is not None:
            self._model = self._adopt(n, n.i)
        val = z3.IntVal(v) if z3.is_int(term) else z3.BitVecVal(v, term.size())
        self.add(term == val)
        if z3.is_const(term) and term.decl().kind() == z3.Z3_OP_UNINTERPRETED:
            self.lits.append((term, val))
        else:
            self.lits.append((term == val, z3.BoolVal(True)))
        return v

    def choose(self, name, options):
        """Harness-level fork over a python list of options (all feasible by construction)."""
        k = self.concretize(self.int("choice_" + name, 0, len(options) - 1))
        return options[k]

    def implied(self, cond):
        """True iff cond holds on every extension of the current path (no fork)."""
        if isinstance(cond, bool):
            return cond
        cond = self.simp(cond)
        if z3.is_true(cond):
            return True
        if z3.is_false(cond):
            return False
        known = self._eval_model(cond)
        if known is not None and z3.is_false(known):
            return False
        r, _ = self._solve([z3.Not(cond)])
        return r == "unsat"

    # ---------------------------------------------------------------- exploration
    def explore(self, fn, on_path):
        """Run fn(engine) on every feasible path; on_path(engine, out) judges the path and returns a dict.
        Stops at the first path whose verdict has 'stop' set."""
        results = []
        while True:
            self.reset_path()
            pruned = False
            try:
                out = fn(self)
            except PathPruned:
                pruned = True
                out = None
            if pruned:
                self.stats["pruned"] += 1
            else:
                self.stats["paths"] += 1
                res = on_path(self, out)
                results.append(res)
                if res is not None and res.get("stop"):
                    return results
            while self.stack and self.stack[-1].i + 1 >= len(self.stack[-1].alts):
                self.stack.pop()
            if not self.stack:
                break
            self.stack[-1].i += 1
            if self.stats["paths"] >= self.max_paths:
                raise Unknown("path budget exhausted (%d)" % self.max_paths)
        return results

    def prove(self, goal):
        """On the current path: is `goal` valid?  Returns None if valid else a counter-model."""
        self.stats["queries"] += 1
        if goal is True:
            return None
        if goal is False:
            return self.model()
        goal = self.simp(goal)
        if z3.is_true(goal):
            return None
        known = self._eval_model(goal)
        if known is not None and z3.is_false(known):
            return self._model
        r, m = self._solve([z3.Not(goal)], final=True)
        if r == "unsat":
            return None
        return m

    def path_descr(self):
        return [(n.kind, n.alts[n.i]) for n in self.stack[:self.depth]]


_current = None


def current():
    return _current


def set_current(e):
    global _current
    _current = e
