"""Declarative building blocks for oracles (z3 formulas over symbolic row lengths / bounds / cells).
Tested against plain Python in selftest/test_specs.py."""
import z3


def I(v):
    if z3.is_expr(v):
        if z3.is_bv(v):
            return z3.BV2Int(v, is_signed=True)     # index-like quantity that happens to be carried as a bit-vector
        if z3.is_bool(v):
            return z3.If(v, 1, 0)
        return v
    return z3.IntVal(int(v))


def prefix_starts(lens):
    """exclusive prefix sums"""
    out, acc = [], z3.IntVal(0)
    for l in lens:
        out.append(acc)
        acc = acc + l
    return out, acc


def zmin(a, b):
    return z3.If(a <= b, a, b)


def zmax(a, b):
    return z3.If(a >= b, a, b)


def py_slice(start, stop, step, n):
    """Python's slice(start, stop, step).indices(n) for concrete non-zero int step and symbolic/None bounds.
    Returns (first, count): the first selected position and the number of selected positions."""
    If = z3.If
    n = I(n)
    assert isinstance(step, int) and step != 0
    if step > 0:
        s = z3.IntVal(0) if start is None else If(I(start) < 0, zmax(I(start) + n, 0), zmin(I(start), n))
        e = n if stop is None else If(I(stop) < 0, zmax(I(stop) + n, 0), zmin(I(stop), n))
        return s, If(e > s, (e - s + step - 1) / step, 0)
    s = n - 1 if start is None else If(I(start) < 0, zmax(I(start) + n, -1), zmin(I(start), n - 1))
    e = z3.IntVal(-1) if stop is None else If(I(stop) < 0, zmax(I(stop) + n, -1), zmin(I(stop), n - 1))
    return s, If(s > e, (s - e - step - 1) / (-step), 0)


def wrap_index(i, n):
    """python index normalisation: (in_range, normalised)"""
    i, n = I(i), I(n)
    return z3.And(i >= -n, i < n), z3.If(i < 0, i + n, i)


def store_of(cells, sort=None):
    """z3 array holding the given cells (Int-indexed)"""
    if sort is None:
        sort = z3.IntSort()
        for c in cells:
            if z3.is_expr(c):
                sort = c.sort()
                break
    if sort == z3.IntSort():
        D = z3.K(z3.IntSort(), z3.IntVal(0))
    elif sort == z3.BoolSort():
        D = z3.K(z3.IntSort(), z3.BoolVal(False))
    else:
        D = z3.K(z3.IntSort(), z3.BitVecVal(0, sort.size()))
    for p, c in enumerate(cells):
        D = z3.Store(D, p, lift(c, sort))
    return D


def lift(v, sort):
    if z3.is_expr(v):
        return v
    if sort == z3.BoolSort():
        return z3.BoolVal(bool(v))
    if sort == z3.IntSort():
        return z3.IntVal(int(v))
    return z3.BitVecVal(int(v), sort.size())


def eqv(a, b):
    """equality of two cells that may be python values or z3 terms of matching sort (Bool vs 0/1 tolerated)"""
    if not z3.is_expr(a) and not z3.is_expr(b):
        return bool(a == b)
    if z3.is_expr(a) and not z3.is_expr(b):
        b = lift(b, a.sort())
    elif z3.is_expr(b) and not z3.is_expr(a):
        a = lift(a, b.sort())
    if a.sort() != b.sort():
        if z3.is_bool(a) and z3.is_int(b):
            a = z3.If(a, 1, 0)
        elif z3.is_bool(b) and z3.is_int(a):
            b = z3.If(b, 1, 0)
        elif z3.is_bv(a) and z3.is_int(b):
            b = z3.Int2BV(b, a.size())
        elif z3.is_int(a) and z3.is_bv(b):
            a = z3.Int2BV(a, b.size())
        elif z3.is_bool(a) and z3.is_bv(b):
            a = z3.If(a, z3.BitVecVal(1, b.size()), z3.BitVecVal(0, b.size()))
        elif z3.is_bool(b) and z3.is_bv(a):
            b = z3.If(b, z3.BitVecVal(1, a.size()), z3.BitVecVal(0, a.size()))
    return a == b


def conj(conds):
    cs = []
    for c in conds:
        if c is True:
            continue
        if c is False:
            return False
        if z3.is_true(c):
            continue
        cs.append(c)
    if not cs:
        return True
    return z3.And(*cs) if len(cs) > 1 else cs[0]


def disj(conds):
    cs = []
    for c in conds:
        if c is False:
            continue
        if c is True:
            return True
        cs.append(c)
    if not cs:
        return False
    return z3.Or(*cs) if len(cs) > 1 else cs[0]


def ragged_matches(got_flat, got_lens, exp_lens, exp_cell):
    """Conditions stating that the observed ragged result (flat cells + row lengths, concrete *counts*,
    symbolic contents) equals the expected one: exp_lens[k] (z3 Int) and exp_cell(k, c) (z3 term for the
    c-th cell of expected row k; c is a z3 Int term)."""
    conds = [len(got_lens) == len(exp_lens)]
    if len(got_lens) != len(exp_lens):
        return [False]
    tot = z3.IntVal(0)
    for l in exp_lens:
        tot = tot + I(l)
    conds.append(tot == len(got_flat))
    ostart = z3.IntVal(0)
    for k in range(len(exp_lens)):
        conds.append(eqv(got_lens[k], I(exp_lens[k])))
        for q in range(len(got_flat)):
            inrow = z3.And(ostart <= q, q < ostart + I(exp_lens[k]))
            conds.append(z3.Implies(inrow, eqv(got_flat[q], exp_cell(k, q - ostart))))
        ostart = ostart + I(exp_lens[k])
    return conds


def count_true(bs):
    return z3.Sum([z3.If(b, 1, 0) for b in bs]) if bs else z3.IntVal(0)


def select_chain(cells, idx):
    """cells[idx] as an ite chain (idx assumed in range)"""
    out = cells[-1]
    sort = None
    for c in cells:
        if z3.is_expr(c):
            sort = c.sort()
    if sort is None:
        sort = z3.IntSort()
    out = lift(out, sort)
    for p in range(len(cells) - 2, -1, -1):
        out = z3.If(I(idx) == p, lift(cells[p], sort), out)
    return out


def obs_goal(got, exp):
    """conditions stating that observation `got` equals the expected observation `exp` (same concrete structure,
    z3/python leaves).  exp leaves may be the string "?" (unconstrained)."""
    if isinstance(exp, dict) and exp.get("k") == "any":
        return True
    if not isinstance(got, dict) or not isinstance(exp, dict) or got.get("k") != exp.get("k"):
        return False
    k = got["k"]
    conds = []
    if k == "raise":
        return True
    if k == "tuple":
        if len(got["items"]) != len(exp["items"]):
            return False
        return conj([obs_goal(a, b) for a, b in zip(got["items"], exp["items"])])
    if k == "scalar":
        if exp.get("dtype", "*") != "*" and got.get("dtype") != exp.get("dtype"):
            return False
        return True if isinstance(exp["val"], str) and exp["val"] == "?" else eqv(got["val"], exp["val"])
    if k in ("array", "ragged"):
        if exp.get("dtype", "*") != "*" and got.get("dtype") != exp.get("dtype"):
            return False
        if k == "array" and list(got["shape"]) != list(exp["shape"]):
            return False
        if k == "ragged":
            if len(got["lens"]) != len(exp["lens"]):
                return False
            conds += [eqv(a, b) for a, b in zip(got["lens"], exp["lens"])]
        if len(got["flat"]) != len(exp["flat"]):
            return False
        for a, b in zip(got["flat"], exp["flat"]):
            if isinstance(b, str) and b == "?":
                continue
            conds.append(eqv(a, b))
        return conj(conds)
    if k == "none":
        return True
    return False
