"""Solver portfolio (DESIGN.md section 3.4).

Every query gets a *fresh* z3 solver (z3's incremental core was measured to time out on mixed Int+BV
queries that a fresh solver decides in < 1 s).  On `unknown` the ladder escalates:
  1. fresh z3.Solver()                                   (timeout t)
  2. Then(simplify, solve-eqs, smt) tactic solver        (timeout t)
  3. SMT-LIB2 round trip into a fresh context            (timeout 2t)
  4. external binaries z3-new / cvc5 on the dumped file  (final queries only, timeout 3t)
`unknown` after the whole ladder is reported as unknown (the caller counts the path inconclusive).
Any "(error" line from an external solver is inconclusive.
"""
import os
import subprocess
import tempfile
import z3

_EXTERNAL = os.environ.get("VERIF_EXTERNAL_SOLVERS", "1") == "1"


def _res(r):
    return "sat" if r == z3.sat else "unsat" if r == z3.unsat else "unknown"


def check(assertions, timeout_ms, final=False):
    """-> (result, model-or-reason, backend)"""
    s = z3.Solver()
    s.set("timeout", int(timeout_ms))
    s.add(*assertions)
    r = s.check()
    if r != z3.unknown:
        return _res(r), (s.model() if r == z3.sat else None), "z3"
    reason = s.reason_unknown()
    # 2. tactic pipeline
    try:
        t = z3.Then("simplify", "solve-eqs", "smt").solver()
        t.set("timeout", int(timeout_ms))
        t.add(*assertions)
        r = t.check()
        if r == z3.unsat:
            return "unsat", None, "z3-tactic"
        if r == z3.sat:
            # re-validate the model on the original assertions (solve-eqs models are converted back by z3)
            m = t.model()
            if all(z3.is_true(m.eval(a, model_completion=True)) for a in assertions):
                return "sat", m, "z3-tactic"
    except z3.Z3Exception:
        pass
    # 3. SMT-LIB round trip
    try:
        txt = s.to_smt2()
        ctx = z3.Context()
        s2 = z3.Solver(ctx=ctx)
        s2.set("timeout", int(2 * timeout_ms))
        s2.from_string(txt)
        r = s2.check()
        if r == z3.unsat:
            return "unsat", None, "z3-reparse"
        if r == z3.sat:
            s3 = z3.Solver(); s3.set("timeout", int(2 * timeout_ms)); s3.add(*assertions)
            # pin the model found in the other context, value by value, to get a model in our context
            m2 = s2.model()
            pins = []
            consts = {}
            for a in assertions:
                _collect(a, consts)
            for d in m2.decls():
                if d.arity() == 0 and d.name() in consts:
                    v = m2[d]
                    c = consts[d.name()]
                    try:
                        if z3.is_int_value(v):
                            pins.append(c == v.as_long())
                        elif z3.is_bv_value(v):
                            pins.append(c == z3.BitVecVal(v.as_long(), c.size()))
                        elif z3.is_true(v) or z3.is_false(v):
                            pins.append(c == z3.is_true(v))
                    except z3.Z3Exception:
                        pass
            r3 = s3.check(*pins)
            if r3 == z3.sat:
                return "sat", s3.model(), "z3-reparse"
    except z3.Z3Exception:
        pass
    if final and _EXTERNAL:
        ext = _external(s.to_smt2(), 3 * timeout_ms)
        if ext == "unsat":
            return "unsat", None, "external"
    return "unknown", reason, "none"


def _collect(t, out, seen=None):
    if seen is None:
        seen = set()
    stack = [t]
    while stack:
        x = stack.pop()
        i = x.get_id()
        if i in seen:
            continue
        seen.add(i)
        if z3.is_const(x) and x.decl().kind() == z3.Z3_OP_UNINTERPRETED:
            out[x.decl().name()] = x
        stack.extend(x.children())


def _external(smt2, timeout_ms):
    """unsat only if a binary says unsat with no error line; anything else: None"""
    with tempfile.NamedTemporaryFile("w", suffix=".smt2", delete=False, dir=os.environ.get("VERIF_TMP", None)) as f:
        f.write(smt2)
        path = f.name
    try:
        for cmd in (["z3-new", "-T:%d" % max(1, timeout_ms // 1000), path], ["cvc5", "--tlimit=%d" % timeout_ms, path]):
            try:
                p = subprocess.run(cmd, capture_output=True, text=True, timeout=timeout_ms / 1000 + 5)
            except (OSError, subprocess.TimeoutExpired):
                continue
            out = p.stdout.strip()
            if "(error" in out or "(error" in p.stderr:
                continue
            if out.splitlines()[:1] == ["unsat"]:
                return "unsat"
            if out.splitlines()[:1] == ["sat"]:
                return None
    finally:
        os.unlink(path)
    return None
