"""Regenerates MANIFEST.json from the table below (run: python3 tools_manifest.py)."""
import json, os
HERE = os.path.dirname(os.path.abspath(__file__))
TITLES = {}
for l in open(os.path.join(HERE, "properties.jsonl")):
    d = json.loads(l); TITLES[d["id"]] = d["title"]

# property -> (design section, what the check covers, level note)   -- only properties with a working check
CLAIMED = {
 "C01": ("4/C01", "construction from (buffer, lengths) over symbolic row lengths for bool/uint8/int32/int64/float64 cells: len/size/shape/lengths/"
         "ravel/dtype and the RaggedShape geometry (starts/ends = exclusive prefix sums, ravel/unravel_multi_index, index_array) for symbolic probes; "
         "size-mismatch refusal for the list/array/RaggedShape/tuple shape forms; construction from nested lists and arrays, tolist, iteration; "
         "astype between integer widths and bool; from/to numpy arrays; save/load (np.savez/np.load stubbed as an in-memory dict on the symbolic side, "
         "real files at replay) through both from_dict branches",
         "bounds: rows<=4 (5), row length<=3 (4); nested-list forms rows<=3, length<=2 (3); row lengths given in narrow integer dtypes (int8/uint8/int16) whose running total leaves the dtype; from_numpy_array also of transposed (column-major) matrices; rows given as arrays of different element types (numpy's promoted type, values unchanged); a same-type astype result overwritten afterwards leaves the source alone; KF-C01-1 open"),
 "C03": ("4/C03", "ra[index] = value over the C02 selector grid (non-repeating row selectors) with scalar, flat, (K,1) column, matching ragged and "
         "mismatching ragged values, plus boolean ragged-mask assignment: addressed cells take the value, every other cell and all row lengths unchanged, "
         "mismatching ragged values refused",
         "bounds: rows<=3 (4), row length<=3, bounds +-3 (5), column steps {None,-1,2} (+{1,-2,3}); column values on 64-bit vectors with rows<=2 (3), length<=2 (3); permutations of four rows; ragged values that are themselves pending selections; ra[..., cols] = value"),
 "C04": ("4/C04", "unary ufuncs and binary ufuncs of a ragged array with a same-shaped ragged array, a Python int/bool or numpy scalar, or an (n_rows,1) column "
         "vector on either side: result has the operand's row lengths, equals the ufunc applied by numpy to each row, has numpy's result dtype (NEP 50 "
         "weak Python scalars included), operands unchanged; different row lengths refused.  Cells are bit-vectors of the true width so wrap-around "
         "and the XOR-scatter/prefix-XOR column broadcast on reinterpreted bits are exact, for every itemsize 1/2/4/8 and mixed dtype pairs",
         "bounds: rows<=3 (4), row length<=2 (3); ufuncs subtract/less/bitwise_and/maximum/add/bitwise_xor (+equal/minimum/floor_divide/logical_or), "
         "unary negative/invert/logical_not/absolute; column broadcast also onto lazily selected operands (int64; float16 cells under an uninterpreted binary ufunc, so that a broadcast that is only exact for integers is seen; selections incl. reversed/strided columns and three-row lists, rows computed on plain lists); operands that are astype results (also in the different-row-lengths refusal); a float16 column on freshly built operands; comparisons with python integers outside the element type (decided on the mathematical values); numpy bool scalars (not numbers.Number) and interpreted float arithmetic are outside the claim"),
 "C07": ("4/C07", "cumsum (method and np.cumsum), add/subtract/bitwise_xor.accumulate, sort, unique with and without counts, diff of order 1..3 on "
         "symbolic row lengths (empty rows anywhere) and symbolic cells: per-row restart of scans, per-row sorted permutation, per-row distinct values and "
         "multiplicities, per-row n-th differences; operand unchanged",
         "bounds: rows<=3 (4), row length<=3 (4); int64 cells (Int-represented, |v|<=1000, through the bit-pattern bijection for the offset broadcast; 64-bit "
         "vectors for xor); float16 sort/unique/unique-with-counts with IEEE-exact comparisons and arithmetic (rows<=2, length<=3, NaN excluded); cumsum of uint8/int8/int32 bit-vectors (numbers only) and of uint64 (the result must stay uint64; thorough: full-range wrapping); every operation also on lazily selected operands (rows reversed / three-row list / mask / row slice / columns reversed / +-2 strides / column slice) against rows computed on plain lists (np.cumsum and the cumsum method); cumsum(dtype=int8/uint8) wrapping in that type; diff of order 0; bool add.accumulate; bool inputs and float diff not covered"),
 "C08": ("4/C08", "np.concatenate along rows (1-3 operands, each with its own symbolic row lengths) and along columns, zeros_like/ones_like/empty_like "
         "(+dtype), as_padded_matrix (left/right/default, symbolic fill), nonzero (method and np.nonzero; int and bool cells), where(mask, x, y) with ragged/ragged "
         "and ragged/scalar operands, subset(mask) and ra[mask], ragged_slice on ragged, 1-D and 2-D sources with symbolic starts/ends (negative ends, ends beyond the row)",
         "bounds: rows<=3 (4), row length<=3, 2-3 operands with rows<=2; preconditions: padded matrix needs one non-empty row, 1-D ragged_slice takes both vectors, "
         "a scalar x in where() is outside the claim; ragged_slice also on lazily row-selected operands; concatenate / zeros_like / padded matrix / nonzero / where (as condition source and as x) / ragged_slice / subset on lazily selected operands (8 kinds of selection, shapes forked, rows computed on plain lists; nonzero as function and method); the indexing form x[starts:ends] on 1-D and 2-D NPSArray views; the start/end vectors handed to ragged_slice are unchanged afterwards; column concatenation of operands with different element types; 2-D sources stored column-major (transposed views)"),
 "C09": ("4/C09", "ra.sum(axis=0) and np.sum(ra, axis=0) for int64, bool and unsigned cells, col_counts(), get_column_values(j) with symbolic j, over symbolic "
         "row lengths with at least one non-empty row: column j sums/counts exactly the rows longer than j; result length = longest row",
         "bounds: rows<=4 (5), row length<=3 (4); |cell|<2^40 (float64-exact weighted bincount); element type of the result not compared; mean(axis=0) for int64/bool/uint8 as the abstract quotient of exact column sum and count; sum/mean(axis=0), col_counts, get_column_values also as the first use of a lazily selected operand (8 kinds of selection incl. three-row lists), column j=1, aggregates of a sub-selection, the same question asked twice (and after other aggregates), and after the source's size / row sums were read before selecting"),
 "C11": ("4/C11", "HashTable as a dict: three state families (per-key values / scalar / scalar materialised by a first write) x one operation with symbolic "
         "arguments (scalar and vector lookup with repeats, absent keys refused; scalar and vector assignment with scalar or per-key values; contains; "
         "HashSet.contains scalar and vector; fill; zeros_like/ones_like; +; ==; items) followed by a read-back of every key; distinct symbolic keys up to 2^62 "
         "(and int8/uint8 keys, also queried -- HashTable and HashSet -- through wider int64 vectors whose out-of-range values must count as absent), tables derived by zeros_like / ones_like (also from derived and from scalar-valued tables, narrow key dtypes) then written and read, float-valued tables, the key/value arrays handed to the constructor observed after writes, modulus forked over 1..2 (3) and the default 2n-1, numpy's unstable argsort modelled as any sorting permutation",
         "bounds: keys<=2 (3), queries<=2 (3); preconditions: scalar lookups/assignments address present keys, vector assignment targets distinct; float-valued tables as IEEE bit patterns stored and returned unchanged; "
         "KF-C11-1 (scalar-valued table did not check membership) was repaired in /repo"),
 "C12": ("4/C12", "Counter: initial value default 0 / scalar / per-key array, then one or two count(batch) calls with symbolic samples (keys, colliding non-keys, "
         "non-keys in empty buckets, repeats, empty batches, python lists), then every key read back: total = initial + occurrences; every modulus 1..2(3) and the default",
         "bounds: symbolic keys<=2 (3), batch<=2 (3), batches<=2; plus concrete key sets of 3-4 keys (with and without bucket collisions, moduli 1..7 and default) with symbolic batches of <=3 (4) samples in +-16, incl. a 3/2/1-key bucket layout and uint8/int8 keys with bucket numbers above half the type's range; the initial-value and key arrays handed to the constructor unchanged afterwards; counters derived by zeros_like (explicit moduli); a uint64 key above 2^63 with samples around zero"),
 "C13": ("4/C13", "BitArray.pack/unpack, packed[i] with symbolic i, packed[index list].unpack(), sliding_window(w) for every w with w*b<=64, for b in {32,16,8,4,2,1}, "
         "lengths around the 64-bit register boundaries (1,2,3,k-1,k,k+1,2k-1,2k,2k+1), input dtypes uint8/uint16/int32/int64/uint64; call sequences on one object (two windows of different sizes; "
         "window, index, then unpack); the packed input must be unchanged; cells are bit-vectors constrained < 2^b",
         "bounds: n <= 2k+1 registers' worth (quick: edges only; thorough: every n up to 2k+2 for b>=4); zero-length arrays and empty position lists; a BitMask created first (nothing of its 8-bit layout may reach BitArray); position arrays of a narrow integer type; the unpacked array overwritten before the next unpack"),
 "C14": ("4/C14", "RunLengthArray.from_array(a) for bool, int8/uint8/int32/int64/uint64 bit-vectors and float16/32/64 bit patterns (NaN, +-0 through FP predicates): "
         "to_array / np.asarray round trip under the dtype's equality, dtype, len/size/shape/ndim, starts/ends/values; canonical form (events 0=e0<...<ek=n, adjacent values differ, "
         "each run holds its cells' value); canonical form of stepped slices (steps +-2, 3) and of mask selections (dense, run-length, run-length from a comparison; the empty selection included) checked here (C14.stepslice) and of binary-ufunc results in C16, on the solver side and again on the real events/values at replay",
         "bounds: n<=4 (6); the decoded array (to_array and numpy's array conversion) overwritten by the caller does not reach the encoded array; float16 stepped slices (equal infinities, signed zeros; cells compared by value); binary ufuncs on two operands derived from one array (shared boundaries) and concatenation (C14.ufunc2, bodies of C16)"),
 "C15": ("4/C15", "rla[i] (negative, out of range refused), rla[list/array], rla[dense bool mask], rla[run-length bool mask] (encoded from a dense mask, and produced by a comparison ufunc so that adjacent runs may share a truth value), rla[a:b:s] with symbolic/absent bounds in +-(n+2) "
         "and steps +-1,+-2,+-3, rla[starts:stops] windows; decoded result equals the same index on the dense array; RunLengthArray results canonical",
         "bounds: n<=4 (5); 64-bit cells; masks with no True element included; masks given as python lists of bools; a slice expression evaluated twice leaves the indexed array as it was; float16 and uint64 cells for integer / list / mask indices (float cells compared by value)"),
 "C16": ("4/C16", "unary ufuncs, binary ufuncs of two equally long run-length arrays (all alignments of the two boundary sets), scalar on either side (ufunc and operator forms), "
         "sum/np.sum (int64, uint8, int8, uint16)/any/all/max/mean, concatenate of 2-3: decoded result equals the ufunc on the dense arrays, binary results canonical, operands unchanged; "
         "np.histogram (1-3 uniform bins, range None / inside / partly outside / degenerate, density on and off) equals numpy's histogram of the decoded array (symbolic bin membership, IEEE-exact densities)",
         "bounds: n<=3 (4); int64/bool/uint8+int8 cells as bit-vectors; mean as abstract quotient; histogram on cells in -1..5 with explicit bin edges and weights= not covered; cell-by-cell multiplication of two 64-bit arrays outside reach (symbolic x symbolic); concatenation of operands with different element types; bool sums/means/max; binary ufuncs of two operands derived from one array; any/all/sum/max of arrays that are results of scalar ufuncs or concatenations (neighbouring runs may be equal); a dense operand of another length is refused; python scalars with int8/uint8 cells (the element type is kept and wraps); mean of magnitudes beyond +-1000 is outside the bounds (the library's and numpy's summation orders round differently there)"),
 "C17": ("4/C17", "RunLength2dArray.from_array / RunLengthRaggedArray.from_ragged_array / from_array / from_intervals: decode round trip, len/shape/size, row selectors "
         "(int, slice with steps None/-1/2, list, mask), element, column int, column slices under the property's precondition (non-empty in every selected row; negative steps with bounds "
         "inside the rows), row x column slices, row sum/any/all/max/argmax/mean (+np.sum, np.max, np.mean), column sum / any / counts, ravel, concatenate, unary ufunc, ufunc with scalar and (n_rows,1) "
         "column on either side; interval tables (any run value, runs reaching the right edge) under the row/column reductions, selectors and scalar ufuncs; reductions and column aggregates as the first use of a pending row selection (from 1, reversed, stride 2, list, mask) on all three variants; a ragged source that is itself a pending selection.  Structure, selector parameters and the run layout are forked (run boundaries concrete per path); cell values, scalars, columns symbolic",
         "bounds: rows<=2 (3), row length<=3 (4), cell values 0..3; column-slice steps None,1,2,-1,-2 (3,-3); quick column slices: one row up to length 3, two rows up to length 2; mean as abstract quotient; zero-row selections only checked for emptiness"),
 "C18": ("4/C18", "npdataclass with 1-3 fields (1-D and 2-D): len, indexing by int / slice (symbolic bounds, steps None,-1,2) / list / array / mask, iteration, concatenate of 2-3, ==, "
         "astype to a narrower class (one field; two fields declared in another order), refusal of unequal field lengths; two different tables sharing module and qualified name used alternately; equality of tables whose field differs in width must not be reported equal; concatenation of tables whose column types differ (promoted, entries unchanged); masks given as python lists; tables built with keyword arguments from plain lists; two iterations over one table at a time; VarLenArray concatenation (right-aligned, zero-padded)",
         "bounds: n<=3 (4)"),
 "C06": ("4/C06", "relational over programs: for every skeleton d = step_k(...step_1(a)) (steps: row slice / reverse / stride / list / mask, column slice / reverse / "
         "+-2 strides, ufunc, concatenate, sort, cumsum, diff, where, a[...]) with symbolic parameters and input, and every probe (canonical read, integer row, element, row slice, "
         "column slice, column reverse, ufunc, row sums, row assignment, column assignment; plus, on the seven plainest lazy selections, every other public operation: column sums / "
         "counts / values, integer column, (row, column) mixed index, ragged-mask index, padded matrix, unique, cumsum, concatenate, where, ragged_slice, any, max, nonzero, iteration, tolist, shape, a float16 column broadcast, d[...] and d[()], the nonzero method, a row list, and two reads in a row such as size-then-row-sums): the probe on d equals the probe on "
         "an array freshly built from d's rows, and assigning into d leaves a unchanged (a[...] excepted)",
         "bounds: depth 1: all 18 steps x probes, rows<=2 (3), length<=3, parameters +-2; depth 2: 12 fixed + 8 seed-rotated (thorough: all 100) pairs of view steps; thorough depth 3 over 5 view steps"),
 "C10": ("4/C10", "relational over histories: construct a; b = a[selection]; optionally c = b[selection]; a write to a, b or c; final read of every array -- with and "
         "without a read-only operation (repr, str, iteration, ravel, view-index, integer row, element, ufunc, row sums, np.sum, tolist, shape, nonzero) inserted at each position, on "
         "the same symbolic input in one path; final observations -- the canonical read of every array and, in a second family of skeletons, the result of a further operation on the selection "
         "(row/column sums, any, max, ragged_slice, padded matrix, unique, integer row, integer column, (row, column) mixed index, column values, column slice, nonzero) -- must be equal; a third family has no write at all: c = b[selection] taken from a still pending b must not depend on whether b or a was read first (8x8 pairs of selections); reads include selections that are taken and dropped (a[:, ::2], a[1:, ::2]) and .size; a fourth family reads the source *before* selecting and then runs a size-dependent operation on the selection; further finals: a float16 column ufunc (after an earlier reduction), and ra[rows_array, cols_array] with index arrays that an earlier read used as well.  Single-operation form: a read leaves its operand's observation unchanged.  Open known finding "
         "KF-C10-1 (selection aliases its source until first materialising read) excluded by its skeleton predicate only while its witness still fails",
         "bounds: rows<=2, length<=2 (3), parameters +-2; quick: single-op all reads x 4 operands, 3-step core + 60 seed-rotated of 2730 skeletons, 24 of 192 depth-2; thorough: all"),
 "C19": ("4/C19", "relational over configurations: bodies of the C01-C05, C07-C09 harnesses (71 instances: row/column selector grid incl. stepped and reversed row slices, "
         "assignment, reductions, scans, structural functions, geometry probes, column aggregates, ufunc column broadcast) executed under ViewBase.set_dtype(int64) and set_dtype(int32) "
         "on the same symbolic input in one path; cells, row lengths, raised-or-not must be equal; the 32-bit (start,length) gather through a uint64 view is modelled bit-exactly",
         "bounds: those of the underlying quick harnesses with rows<=2-3; index arrays' own dtype (int32 vs int64) is not compared; also selections of selections (C06 bodies) and operations whose operand is a pending selection (C05/C08/C09 on-view bodies); slice bounds around +-2^40 and element positions around +-2^32 (KF-C19-2 repaired); element types of reduction results compared strictly"),
 "C05": ("4/C05", "sum/prod/any/all/max/min/argmax/argmin (int64, uint8, int8), mean and bitwise_or/xor/and.reduce per row through the method, np.<func> and ufunc.reduce entry points, "
         "keepdims and axis=None, over symbolic row lengths with empty rows anywhere (all-empty and zero rows included), on freshly built arrays and on lazy selections "
         "(rows reversed / row list / mask / columns reversed); multiplication as an uninterpreted left fold; mean as the (uninterpreted) float quotient of the exact integer "
         "row sum and the row length, plus IEEE-exact jobs over full-range 64-bit integers",
         "bounds: rows<=4 (5), row length<=3 (4); max/min/argmax/argmin also with empty rows present (only the non-empty rows are compared; for argmax/argmin either one entry per row or one per non-empty row in row order is accepted); axis=None also on lazy selections; any/all of int64/int8 cells; float16 max/min (empty rows anywhere) and float16 argmax/argmin on lazy selections with IEEE-exact comparisons; result element type not compared (C04 subject) except that a float extremum keeps its float type; rows holding NaN (maximum / minimum propagate it)"),
 "C02": ("4/C02", "every index expression of the grammar (row: int, slice with any step, list/array with repeats and negatives, bool mask, "
         "Ellipsis; column: absent, int, slice with any start/stop/step) over symbolic row lengths (empty rows anywhere), symbolic cells and "
         "symbolic index parameters: result equals Python list-of-rows indexing, refusals exactly where the list model refuses",
         "bounds: rows<=3 (4 thorough), row length<=3, slice bounds/indices in +-4 (5), |step|<=2 (3); int64 cells; four-row lists over four rows; C02.onview: integer / element / mixed int-slice / column-slice / row-slice / row-list / reversed-column / ... indexing applied to 8 kinds of lazily selected arrays against rows computed on plain lists (rows<=3, length<=2); integer indices given as numpy integer scalars; slice bounds around +-2^40; C02.pairs: ra[rows_array, cols_array] element-wise (refusals, both index arrays unchanged afterwards, entries around +-2^32)"),
}
NOT_YET = {k: "check not built yet in this round (planned: DESIGN.md section 4)" for k in TITLES if k not in CLAIMED}

checks = []
for pid, (ref, text, note) in sorted(CLAIMED.items()):
    checks.append({
        "property_id": pid,
        "quick_cmd": f"./check {pid} --tier quick",
        "thorough_cmd": f"./check {pid} --tier thorough",
        "evidence_file": f"evidence/{pid}.json",
        "replay_cmd_template": f"./check {pid} --replay {{path}}",
        "engine": "symx",
        "level_claimed": {"category": "model_checking",
                          "text": "Bounded symbolic model checking of the real source: /repo's unmodified functions are executed on a symbolic numpy "
                                  "whose cells are z3 terms; a forking executor enumerates the control-flow/shape paths with the solver deciding feasibility, "
                                  "and on every path the solver is asked for a counterexample to a declarative model of the property (unsat on all paths = "
                                  "holds for every input within the stated bounds). " + text,
                          "design_ref": ref},
        "level_note": "Trusted: z3, CPython, the symx executor, the symbolic numpy shim (every path's witness is re-executed on real numpy and compared), "
                      "the declarative oracle (cross-checked against an independent executable reference on every witness and counterexample). " + note,
        "technique": "SMT-based bounded symbolic execution of the real Python source (z3 over a symbolic numpy), counterexamples replayed on real numpy",
    })
m = {
 "version": 1,
 "setup_cmd": "python3-vt -c \"import z3; print('z3', z3.get_version_string())\" && /venv/bin/python -c \"import numpy; print('numpy', numpy.__version__)\"",
 "hooks": {"guard": "NPSTRUCTURES_VERIF", "enable": "none needed: numpy is swapped by import path (PYTHONPATH=/verif/shim), observations are public API; the guard variable is unused",
           "baseline_off_cmd": "cd /repo && /venv/bin/python -m pytest -q -p no:cacheprovider --timeout=900 --continue-on-collection-errors",
           "source_commits": [], "add_only": True},
 "engines": [{"name": "symx", "path": "symx/ shim/numpy/ harness/ runner/ replay/", "serves_properties": sorted(CLAIMED),
              "kind_free_text": "re-execution DFS symbolic executor on z3 + symbolic numpy model; real-numpy replay server"}],
 "checks": checks,
 "not_applicable": [{"property_id": k, "reason": v} for k, v in sorted(NOT_YET.items())],
 "notes": "exit 0 holds / exit 1 + VIOLATION line / exit 3 + INCONCLUSIVE line (solver unknown, shim gap, unreproduced counterexample: never reported as success). "
          "Known findings: known_findings.json (read-only at run time).",
}
json.dump(m, open(os.path.join(HERE, "MANIFEST.json"), "w"), indent=1)
print("claimed", sorted(CLAIMED), "not yet", sorted(NOT_YET))
