#!/bin/sh
# development helper: run the thorough tier of the given properties one after the other, log summaries
cd "$(dirname "$0")"
for p in "$@"; do
  start=$(date +%s)
  VERIF_JOB_BUDGET_S=${VERIF_JOB_BUDGET_S:-3000} ./check $p --tier thorough --no-evidence > /tmp/verif_thorough_$p.log 2>&1
  echo "$p exit=$? $(( $(date +%s) - start ))s $(grep '^SUMMARY' /tmp/verif_thorough_$p.log)"
  grep -c "^VIOLATION\|^INCONCLUSIVE" /tmp/verif_thorough_$p.log | sed 's/^/   alarms: /'
done
