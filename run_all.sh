#!/bin/sh
# development helper: run every claimed check (tier from $1, default quick) and print the summary lines
cd "$(dirname "$0")"
TIER=${1:-quick}
for p in $(python3 -c "import json; print(' '.join(c['property_id'] for c in json.load(open('MANIFEST.json'))['checks']))"); do
  ./check $p --tier $TIER > /tmp/verif_all_$p.log 2>&1; echo "$p exit=$? $(grep '^SUMMARY' /tmp/verif_all_$p.log)"; grep -c "^VIOLATION\|^INCONCLUSIVE" /tmp/verif_all_$p.log | sed 's/^/   alarms: /'
done
