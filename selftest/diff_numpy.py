#!/usr/bin/env python3
"""Differential self-test of the symbolic numpy shim in *concrete* mode against the real numpy of /venv (DESIGN 3.8 (a)).

Every expression below is evaluated twice -- under python3-vt with /verif/shim first on sys.path, and under /venv/bin/python -- and the
canonical results (values, shape, dtype, or the exception class) are compared.  Not part of any registered check; run it after touching the shim:
    python3 selftest/diff_numpy.py            (exit 0 = no disagreement)
"""
import json
import os
import subprocess
import sys

HERE = os.path.dirname(os.path.abspath(__file__))
VERIF = os.path.dirname(HERE)

EXPRS = [
    # ---- reduceat corner cases the repository leans on
    "np.add.reduceat(np.array([1,2,3,4,5]), [0,2,4])",
    "np.add.reduceat(np.array([1,2,3,4,5]), [0,2,2,4])",
    "np.add.reduceat(np.array([1,2,3,4,5]), [3,1,0])",
    "np.add.reduceat(np.array([1,2,3]), [0,3])",
    "np.maximum.reduceat(np.array([5,1,7,2]), [0,1,1,3])",
    "np.logical_or.reduceat(np.array([True,False,False]), [0,1,1])",
    "np.multiply.reduceat(np.array([2,3,4], dtype=np.int8), [0,1])",
    "np.bitwise_xor.reduceat(np.array([1,3,7], dtype=np.uint8), [0,2])",
    # ---- searchsorted
    "np.searchsorted(np.array([0,0,2,5]), 0, side='right')",
    "np.searchsorted(np.array([0,0,2,5]), 0, side='left')",
    "np.searchsorted(np.array([0,0,2,5]), np.array([0,1,2,5,6]), side='right')",
    "np.searchsorted(np.array([0,0,2,5]), np.array([0,1,2,5,6]), side='left')",
    "np.searchsorted(np.array([], dtype=int), 3)",
    # ---- bincount / unique / sorting
    "np.bincount(np.array([0,2,2,5]))",
    "np.bincount(np.array([0,2,2]), minlength=6)",
    "np.bincount(np.array([0,1,1]), weights=np.array([3,4,5]))",
    "np.bincount(np.array([0,1,1]), weights=np.array([0.5,1.5,2.0]), minlength=3)",
    "np.bincount(np.array([], dtype=int), minlength=2)",
    "np.unique(np.array([3,1,3,2,1]))",
    "np.unique(np.array([3,1,3,2,1]), return_counts=True)",
    "np.unique(np.array([3,1,3,2,1]), return_index=True)",
    "np.argsort(np.array([3,1,2]), kind='mergesort')",
    "np.argsort(np.array([1,1,0,0]), kind='mergesort')",
    "np.lexsort((np.array([3,1,2,0]), np.array([1,1,0,0])))",
    "np.sort(np.array([3,-1,2]))",
    # ---- construction / padding / insertion
    "np.pad(np.array([1,2,3]), pad_width=1, mode='constant')",
    "np.pad(np.array([1,2]), (0,2), constant_values=7)",
    "np.insert(np.array([1,2,3]), 0, 9)",
    "np.insert(np.array([1,2,3]), 0, np.zeros(2, dtype=int))",
    "np.append(np.array([1,2]), 5)",
    "np.append(np.array([1,2]), np.array([3,4]))",
    "np.delete(np.array([1,2,3,4]), [1,3])",
    "np.delete(np.array([1,2,3,4]), np.array([], dtype=int))",
    "np.repeat(np.array([7,8,9]), [2,0,1])",
    "np.tile([0,1], 3)",
    "np.hstack((np.array([[1],[2]]), np.array([[3],[4]])))",
    "np.vstack((np.array([1,2]), np.array([3,4])))",
    "np.concatenate([np.array([1,2]), np.array([], dtype=np.int64), np.array([3])])",
    "np.concatenate([np.array([[1,2]]), np.array([[3,4]])], axis=-1)",
    "np.full(3, 7, dtype=np.int32)",
    "np.zeros(0, dtype=bool)",
    "np.arange(5)[::-2]",
    "np.arange(6).reshape(-1, 2)",
    "np.arange(6).reshape(2, 3).T",
    "np.atleast_1d(np.int64(3))",
    "np.cumsum(np.array([1,2,3], dtype=np.int8))",
    "np.cumsum(np.array([True, False, True]))",
    "np.diff(np.array([1,4,9,16]))",
    "np.diff(np.array([1,4,9,16]), n=2)",
    "np.diff(np.array([True, False, False]))",
    "np.flatnonzero(np.array([0,3,0,5]))",
    "np.nonzero(np.array([0,3,0,5]))",
    "np.where(np.array([True,False,True]), np.array([1,2,3]), 0)",
    "np.where(np.array([-1,2]) < 0, np.array([5,6]) + np.array([-1,2]), np.array([-1,2]))",
    "np.minimum(np.array([1,5]), 3)",
    "np.maximum(0, np.array([-1,2]))",
    "np.sign(np.array([-3,0,4]))",
    "np.abs(np.array([-3,0,4]))",
    # ---- promotion (NEP 50) and accumulator dtypes
    "(np.array([1,2], dtype=np.uint8) + 2)",
    "(np.array([250], dtype=np.uint8) + np.uint8(10))",
    "(np.array([1], dtype=np.uint8) + np.array([1], dtype=np.int8))",
    "(np.array([1], dtype=np.int64) + np.uint64(1))",
    "(np.array([1], dtype=np.uint64) + np.array([1], dtype=np.int64))",
    "(np.array([True]) + np.array([True]))",
    "(np.array([True]) + 1)",
    "(np.array([1], dtype=np.int32) * 1.5)",
    "(np.array([1,2], dtype=np.int16) < np.array([2,1], dtype=np.uint8))",
    "np.result_type(np.uint8, 2)",
    "np.result_type(np.int8, np.uint8)",
    "np.result_type(np.int64, np.uint64)",
    "np.add.reduce(np.array([200, 100], dtype=np.uint8))",
    "np.add.reduce(np.array([True, True]))",
    "np.multiply.reduce(np.array([100, 100], dtype=np.int8))",
    "np.array([1,2,3], dtype=np.int8).sum()",
    "np.array([[1,2],[3,4]]).sum(axis=-1)",
    "np.array([[1,2],[3,4]]).sum(axis=0)",
    "np.array([5, 3]) // np.array([2, -2])",
    "np.array([5, -5]) % 3",
    "np.array([7], dtype=np.uint64) // np.uint64(2)",
    "np.true_divide(np.array([1, 2]), np.array([2, 2]))",
    "np.array([1,2], dtype=np.int8) / np.int8(2)",
    # ---- shifts, bit tricks, views
    "np.array([1], dtype=np.uint64) << np.uint64(63)",
    "np.array([1], dtype=np.uint64) << np.uint64(64)",
    "np.array([255], dtype=np.uint8) >> np.uint8(9)",
    "~np.uint64(0) >> np.uint64(60)",
    "np.array([1,2,3], dtype=np.int64).view(np.uint64)",
    "np.array([-1], dtype=np.int8).view(np.uint8)",
    "np.array([1,2,3,4], dtype=np.int32).view(np.uint64)",
    "np.array([1,2,3,4], dtype=np.int32).view(np.uint64)[::-1].view(np.int32)",
    "np.array([1,2,3,4,5,6], dtype=np.int32).view(np.uint64)[::2].view(np.int32)",
    "np.array([1,2,3,4], dtype=np.int32).view(np.uint64)[1:].view(np.int32)",
    "np.array([1.0, -0.0], dtype=np.float64).view(np.uint64)",
    "np.bitwise_xor.accumulate(np.array([1,3,7], dtype=np.uint8))",
    "np.logical_xor.accumulate(np.array([True, True, False]))",
    # ---- indexing and assignment semantics
    "np.arange(5)[[0, -1, 0]]",
    "np.arange(5)[np.array([True,False,True,False,False])]",
    "np.arange(6).reshape(3,2)[[2,0]]",
    "np.arange(6).reshape(3,2)[np.array([True,False,True])]",
    "np.arange(6).reshape(3,2)[:, 1]",
    "np.arange(6).reshape(3,2)[..., 0]",
    "np.arange(6).reshape(3,2)[[0,2],[1,0]]",
    "np.arange(5)[5]",
    "np.arange(5)[[5]]",
    "np.arange(5)[-6]",
    "np.ones(-1)",
    "int(np.array([3]))",
    "int(np.array(3))",
    "np.arange(4).reshape((-1, 0))",
    "np.zeros(0).reshape((-1, 0))",
    "np.array([]).dtype",
    "np.array([[], []]).shape",
    "np.empty(shape=(0, 0)).shape",
    "np.asanyarray([], dtype=int)",
    "np.array([1,2,3])[:, None].shape",
    "np.broadcast_to(np.array([1,2]), (3,2))",
    "np.issubdtype(np.int32, np.integer)",
    "np.issubdtype(np.bool_, np.integer)",
    "np.issubdtype(np.uint8, np.signedinteger)",
    "np.dtype('int') == np.int64",
    "np.dtype(bool) == bool",
    "isinstance(np.int64(3), __import__('numbers').Number)",
    "isinstance(np.bool_(True), __import__('numbers').Number)",
    "np.isscalar(np.int64(3))",
    "np.array_equal(np.array([1,2]), np.array([1,2]))",
    "np.all(np.array([], dtype=bool))",
    "np.any(np.array([0, 0]))",
    "np.max(np.array([3, 9, 2]))",
    "np.argmax(np.array([3, 9, 9]))",
    "np.argmin(np.array([3, 1, 1]))",
    "np.mean(np.array([1, 2, 4]))",
    "np.array([1.5, 2.5]).astype(int)",
    "np.array([1, 2]).astype(float) / np.array([2, 4])",
    "np.array([300, -1]).astype(np.uint8)",
    "np.array([1, 0, 2]).astype(bool)",
    "np.array([True, False]).astype(np.int8)",
    "np.array([1, 2], dtype=np.uint8) ** 2",
    "2 ** np.uint64(5)",
    # ---- added with the round-2/3 harnesses: histogram, fromiter, ravel orders, method fallback of np.sum, union1d
    "np.histogram(np.array([1,2,2,5]), bins=2)",
    "np.histogram(np.array([1,2,2,5]), bins=3, range=(0,4))",
    "np.histogram(np.array([1,2,2,5]), bins=3, range=(0,4), density=True)",
    "np.histogram(np.array([3,3]), bins=2, density=True)",
    "np.histogram(np.array([1,2,2,5]), bins=2, weights=np.array([1,2,1,3]))",
    "np.histogram(np.array([1,2,2,5]), bins=2, weights=np.array([1,2,1,3]), density=True, range=(2,4))",
    "np.histogram(np.array([], dtype=int), bins=2)",
    "np.histogram(np.array([0,1,2,3,4,5,6]), bins=3, range=(1,6), density=True)",
    "np.fromiter((x for x in [1, 2, 300]), dtype=np.int16, count=3)",
    "np.fromiter(iter([np.uint8(3), np.int16(300)]), dtype=np.uint8, count=2)",
    "np.fromiter(iter([]), dtype=np.float64, count=0)",
    "np.arange(6).reshape(2, 3).T.ravel()",
    "np.arange(6).reshape(2, 3).T.ravel(order='K')",
    "np.arange(6).reshape(2, 3).T.ravel(order='F')",
    "np.arange(6).reshape(2, 3).ravel(order='K')",
    "np.arange(6).reshape(2, 3).ravel(order='F')",
    "np.union1d(np.array([3, 1]), np.array([2, 3]))",
    "np.array([np.uint8(3), np.int16(300)])",
    "np.array([True, np.int64(2)])",
    "np.concatenate([np.array([1], dtype=np.int8), np.array([300], dtype=np.int16)])",
    "np.repeat(np.array([5, 6, 7]), 2)",
    "np.repeat(np.array([5, 6, 7]), np.array([2, 0, 1]))",
    "np.repeat(2 * np.array([], dtype=int), 2)",
    "np.repeat(np.array([[1, 2], [3, 4]]), 2)",
    "[np.iinfo(t).min for t in (np.uint8, np.int8, np.int64)] + [np.iinfo(t).max for t in (np.uint8, np.int8, np.uint64)]",
    "np.iinfo(np.array([1], dtype=np.int16).dtype).max",
    "np.array([300, -1, 5])[(np.array([300, -1, 5]) >= 0) & (np.array([300, -1, 5]) <= 255)].astype(np.uint8)",
    "np.array([], dtype=float)[np.array([], dtype=float) >= 0].astype(np.uint8)",
    "np.fmax(np.array([1.0, np.nan, np.nan]), np.array([np.nan, 2.0, np.nan]))",
    "np.fmin.reduce(np.array([3.0, np.nan, 1.0]))",
    "np.maximum.reduce(np.array([3.0, np.nan, 1.0]))",
    "np.fmax(np.array([1, 5]), np.array([4, 2]))",
    "np.arange(6).reshape(2, 3).T.strides",
    "np.arange(6).reshape(2, 3).strides",
    "np.arange(12).reshape(3, 4)[:, 1:3].strides",
    "np.arange(6)[::2].strides",
    "np.arange(6)[::-1].strides",
    "np.minimum(np.array([1, 2], dtype=np.int32), 2**40)",
    "np.array([1, 2], dtype=np.int32) + 2**31",
    "np.array([1, 2], dtype=np.int32) <= 2**40",
    "np.array([1, 2], dtype=np.uint8) + 255",
    "np.array([1, 2], dtype=np.uint8) + 256",
    "np.array([1, 2], dtype=np.uint8) - (-1)",
    "np.array([1, 2], dtype=np.int32) + (2**31 - 1)",
]

RUNNER = r'''
import sys, json, warnings
warnings.simplefilter("ignore")
import numpy as np
def canon(x):
    if isinstance(x, tuple):
        return ["tuple"] + [canon(i) for i in x]
    if hasattr(x, "shape") and hasattr(x, "dtype") and x.shape == ():
        v = x.item() if hasattr(x, "item") else x
        return ["scalar", str(getattr(x.dtype, "name", x.dtype)), repr(float(v)) if isinstance(v, float) else v]
    if isinstance(x, (bool, int, float, str)) or x is None:
        return ["py", x if not isinstance(x, float) else repr(x)]
    if hasattr(x, "shape") and hasattr(x, "dtype"):
        vals = x.tolist() if hasattr(x, "tolist") else x
        def fix(v):
            if isinstance(v, list): return [fix(i) for i in v]
            if hasattr(v, "val"): v = v.val
            if isinstance(v, float): return repr(v)
            return v
        return ["arr", list(x.shape), str(getattr(x.dtype, "name", x.dtype)), fix(vals)]
    if hasattr(x, "name") and hasattr(x, "itemsize"):
        return ["dtype", x.name]
    return ["other", str(x)]
out = []
for e in json.load(sys.stdin):
    try:
        out.append(canon(eval(e)))
    except BaseException as ex:
        out.append(["raise", type(ex).__name__ if type(ex).__name__ != "ShimUnsupported" else "ShimUnsupported: " + str(ex)])
print("RESULT " + json.dumps(out))
'''


def run(py, path):
    r = subprocess.run([py, "-c", "import sys; sys.path[:0]=%r\n%s" % (path, RUNNER)], input=json.dumps(EXPRS), capture_output=True, text=True)
    for line in r.stdout.splitlines():
        if line.startswith("RESULT "):
            return json.loads(line[7:])
    raise RuntimeError(r.stderr[-2000:])


def main():
    shim = run("python3-vt", [os.path.join(VERIF, "shim"), VERIF])
    real = run("/venv/bin/python", [])
    bad = unsupported = 0
    for e, a, b in zip(EXPRS, shim, real):
        if a == b:
            continue
        if a[0] == "raise" and str(a[1]).startswith("ShimUnsupported"):
            unsupported += 1
            print("UNSUPPORTED ", e, "->", a[1])
            continue
        if a[0] == "raise" and b[0] == "raise":
            continue          # both refuse; the class may differ
        bad += 1
        print("DISAGREE   ", e, "\n    shim:", a, "\n    real:", b)
    print(f"{len(EXPRS)} expressions, {bad} disagreements, {unsupported} unsupported by the shim")
    sys.exit(1 if bad else 0)


if __name__ == "__main__":
    main()
