"""dev helper: run one job of a harness module:  python3-vt -m runner.onejob c02 C02.index '{"R":2,...}' [kf,...]"""
import sys, json, subprocess, os
mod, h, p = sys.argv[1], sys.argv[2], json.loads(sys.argv[3])
kf = sys.argv[4].split(",") if len(sys.argv) > 4 and sys.argv[4] else []
job = dict(module=mod, h=h, p=p, kf_active=kf, budget_s=int(os.environ.get("BUDGET", "600")), vacuity=bool(os.environ.get("VACUITY")))
r = subprocess.run([sys.executable, "-m", "runner.worker"], input=json.dumps(job), capture_output=True, text=True)
sys.stderr.write(r.stderr[-3000:])
subprocess.run([sys.executable, os.path.join(os.path.dirname(__file__), "show.py")], input=r.stdout, text=True)
