"""Entry point behind ./check: run every job of a property's harnesses in parallel worker processes,
replay known findings, aggregate, write evidence, print verdict lines.

exit 0  every path of every job explored to the end, every query unsat, nothing inconclusive
exit 1  VIOLATION property=<id> replay=<path>   (a counterexample that reproduces on the real code)
exit 3  INCONCLUSIVE (solver unknown / shim gap / unreproduced counterexample / budget) -- never success
"""
import argparse
import concurrent.futures as cf
import json
import os
import subprocess
import sys
import time

VERIF = os.path.dirname(os.path.dirname(os.path.abspath(__file__)))
REPO = os.environ.get("VERIF_REPO", "/repo")
PY_SYM = os.environ.get("VERIF_PY_SYM", "python3-vt")
PY_REAL = "/venv/bin/python"

PROPS = {
    "C01": ["c01"], "C02": ["c02"], "C03": ["c03"], "C04": ["c04"], "C05": ["c05"], "C06": ["c06"], "C07": ["c07"],
    "C08": ["c08"], "C09": ["c09"], "C10": ["c10"], "C11": ["c11"], "C12": ["c12"], "C13": ["c13"], "C14": ["c14"],
    "C15": ["c15"], "C16": ["c16"], "C17": ["c17"], "C18": ["c18"], "C19": ["c19"],
}


def load_jobs(prop, tier, seed):
    """ask the harness modules (under the symbolic interpreter, shim on path) for their job lists"""
    code = (
        "import sys, json; sys.path[:0]=[%r, %r, %r]\n"
        "from harness import common\n"
        "out=[]\n"
        "for m in %r:\n"
        "    mod=__import__('harness.'+m, fromlist=['x'])\n"
        "    for name,H in list(common.HARNESSES.items()):\n"
        "        if H.get('_done'): continue\n"
        "        H['_done']=True\n"
        "        if not name.startswith(%r): continue\n"
        "        for j in H['jobs'](%r, %d):\n"
        "            j['module']=m; out.append(j)\n"
        "print('JOBS '+json.dumps(out))\n"
    ) % (os.path.join(VERIF, "shim"), VERIF, REPO, PROPS[prop], prop + ".", tier, seed)
    r = subprocess.run([PY_SYM, "-c", code], capture_output=True, text=True, cwd=VERIF)
    for line in r.stdout.splitlines():
        if line.startswith("JOBS "):
            return json.loads(line[5:])
    raise RuntimeError("cannot load jobs: " + r.stderr[-2000:])


_STOP = {"now": False}


def run_worker(job):
    t = time.time()
    if _STOP["now"]:
        # development option VERIF_STOP_AT_FIRST=1 (seeded-change evaluation): an unlisted violation was already found, the rest is not run
        return dict(job=job, status="skipped", inconclusive=[], violations=[], samples=[], validated=0, stats={}, wall=0.0, functions=[])
    try:
        r = subprocess.run([PY_SYM, "-m", "runner.worker"], input=json.dumps(job), capture_output=True, text=True,
                           cwd=VERIF, timeout=job["budget_s"] + 120)
    except subprocess.TimeoutExpired:
        return dict(job=job, status="inconclusive", inconclusive=[dict(reason="worker-timeout")], violations=[], samples=[],
                    validated=0, stats={}, wall=time.time() - t, functions=[])
    for line in r.stdout.splitlines():
        if line.startswith("RESULT "):
            res = json.loads(line[7:])
            if os.environ.get("VERIF_STOP_AT_FIRST") and any(not v.get("known") for v in res.get("violations", [])):
                _STOP["now"] = True
            return res
    return dict(job=job, status="inconclusive", inconclusive=[dict(reason="worker-crash", detail=(r.stderr or r.stdout)[-1500:])],
                violations=[], samples=[], validated=0, stats={}, wall=time.time() - t, functions=[])


def replay_case(case):
    r = subprocess.run([PY_REAL, os.path.join(VERIF, "replay", "server.py")], input=json.dumps(case) + "\n",
                       capture_output=True, text=True, cwd=VERIF, env=dict(os.environ, VERIF_REPO=REPO))
    for line in r.stdout.splitlines():
        if line.startswith("REPLAY "):
            return json.loads(line[7:])
    return {"error": r.stderr[-1500:]}


def load_known(prop):
    path = os.path.join(VERIF, "known_findings.json")
    if not os.path.exists(path):
        return []
    return [f for f in json.load(open(path))["findings"] if f["property"] == prop]


def main():
    ap = argparse.ArgumentParser()
    ap.add_argument("prop")
    ap.add_argument("--tier", default=os.environ.get("VERIF_TIER", "quick"))
    ap.add_argument("--replay")
    ap.add_argument("--only", help="substring filter on harness names (development)")
    ap.add_argument("--no-evidence", action="store_true")
    a = ap.parse_args()
    prop = a.prop.upper()
    tier = a.tier if a.tier in ("quick", "thorough") else "quick"
    seed = int(os.environ.get("VERIF_SEED", "0") or 0)
    if a.replay:
        case = json.load(open(a.replay))
        case = case.get("case", case)
        v = replay_case(case)
        print(json.dumps(v, indent=1))
        if v.get("ok") is False:
            print(f"VIOLATION property={prop} replay={a.replay}")
            sys.exit(1)
        sys.exit(0 if v.get("ok") else 3)

    t0 = time.time()
    known = load_known(prop)
    kf_active, kf_lines = [], []
    for f in known:
        if f["status"] != "open":
            continue
        v = replay_case(f["witness"])
        if v.get("ok") is False:
            kf_active.append(f["id"])
            kf_lines.append(f"KNOWN-FINDING: property={prop} {f['id']} {f['what']}")
        elif "error" in v:
            print(f"INCONCLUSIVE property={prop} reason=known-finding-witness-error {f['id']} {v['error'][-300:]}")
            sys.exit(3)
        # witness no longer fails: the region is checked like any other (no carve-out)
    for l in kf_lines:
        print(l, flush=True)

    jobs = load_jobs(prop, tier, seed)
    if a.only:
        jobs = [j for j in jobs if a.only in j["h"] or a.only in json.dumps(j["p"])]
    budget = int(os.environ.get("VERIF_JOB_BUDGET_S", "300" if tier == "quick" else "3000"))
    for j in jobs:
        j.setdefault("budget_s", budget)
        # per-stage solver budget: the thorough tier waits three times longer before a query is given up as unknown
        j.setdefault("solver_timeout_ms", int(os.environ.get("VERIF_SOLVER_TIMEOUT_MS", 20000 if a.tier == "quick" else 60000)))
        j["kf_active"] = kf_active
        j.setdefault("validate_every", 1)
    nproc = int(os.environ.get("VERIF_JOBS", str(os.cpu_count() or 4)))
    results = []
    with cf.ThreadPoolExecutor(max_workers=nproc) as ex:
        for r in ex.map(run_worker, jobs):
            results.append(r)
            if os.environ.get("VERIF_STOP_AT_FIRST") and any(not v.get("known") for v in r.get("violations", [])):
                _STOP["now"] = True

    # ---------------------------------------------------------------- aggregate
    viol, inconc, known_hits = [], [], []
    for r in results:
        for v in r.get("violations", []):
            if v.get("known"):
                known_hits.append((r, v))
            else:
                viol.append((r, v))
        for v in r.get("inconclusive", []):
            inconc.append((r, v))
    rdir = os.path.join(VERIF, "replays", prop)
    lines = []
    if viol or inconc:
        os.makedirs(rdir, exist_ok=True)
    seen = set()
    for n, (r, v) in enumerate(viol):
        key = json.dumps(v["case"], sort_keys=True)
        if key in seen:
            continue
        seen.add(key)
        path = os.path.join(rdir, f"{r['job']['h'].replace('.', '_')}_{len(seen)}.json")
        json.dump(dict(property=prop, case=v["case"], got=v["got"], exp=v["exp"], how=v["how"], job=r["job"]["p"]), open(path, "w"), indent=1)
        lines.append(f"VIOLATION property={prop} replay={path}")
    for r, v in known_hits:
        l = f"KNOWN-FINDING: property={prop} {v['known']} (also reached by the solver: {json.dumps(v['case'])[:200]})"
        if l not in kf_lines:
            print(l)
    for n, (r, v) in enumerate(inconc[:20]):
        path = os.path.join(rdir, f"inconclusive_{n}.json")
        json.dump(dict(property=prop, job=r["job"], detail=v), open(path, "w"), indent=1, default=str)
        print(f"INCONCLUSIVE property={prop} harness={r['job']['h']} reason={v.get('reason')} detail={path}")
    for l in lines:
        print(l)

    agg = dict(paths=0, decisions=0, checks=0, queries=0, solver_s=0.0, validated=0, pruned=0, forks_bool=0, forks_int=0,
               model_hits=0, max_check_s=0.0, unknown=0)
    backends, funcs, samples = {}, set(), []
    per_h = {}
    for r in results:
        st = r.get("stats", {})
        for k in agg:
            if k == "validated":
                agg[k] += r.get("validated", 0)
            elif k == "max_check_s":
                agg[k] = max(agg[k], st.get(k, 0.0))
            else:
                agg[k] += st.get(k, 0)
        for b, c in st.get("by_backend", {}).items():
            backends[b] = backends.get(b, 0) + c
        funcs.update(r.get("functions", []))
        h = per_h.setdefault(r["job"]["h"], dict(jobs=0, paths=0, wall=0.0))
        h["jobs"] += 1; h["paths"] += st.get("paths", 0); h["wall"] += r.get("wall", 0)
        for s in r.get("samples", [])[:1]:
            if len(samples) < 8:
                samples.append(dict(harness=r["job"]["h"], params=r["job"]["p"], path=s["path"], witness=s["witness"]))
    wall = time.time() - t0
    status = "violation" if lines else "inconclusive" if inconc else "holds"
    if not a.no_evidence and not a.only:        # partial (development) runs never overwrite the evidence of the full check
        ev = dict(
            property_id=prop, tier=tier, seed=seed, level="model_checking", wall_s=round(wall, 2), violations=len(lines),
            coverage=dict(
                states=max(agg["paths"], 0), transitions=max(agg["decisions"], 0),
                traces_validated_against_impl=agg["validated"], samples=samples or [dict(note="no path completed")],
                exhaustive=(status == "holds"),
                explanation="bounded symbolic model checking of the real /repo source on a symbolic numpy; states = paths explored to "
                            "the end (each ends in a solver query for a counterexample to the property), transitions = solver-decided fork "
                            "points, traces_validated = path witnesses (solver models) re-executed on the real code with real numpy and "
                            "compared with both the symbolic result and the executable reference",
                status=status, jobs=len(jobs), jobs_by_harness=per_h, functions_encoded=sorted(funcs),
                solver=dict(checks=agg["checks"], final_queries=agg["queries"], solver_seconds=round(agg["solver_s"], 1),
                            max_query_seconds=round(agg["max_check_s"], 2), by_backend=backends, unknown=agg["unknown"],
                            skipped_by_model_reuse=agg["model_hits"]),
                pruned_paths=agg["pruned"], forks_bool=agg["forks_bool"], forks_int=agg["forks_int"],
                inconclusive=len(inconc), reachability_witnesses=agg["validated"],
                known_findings_active=kf_active,
                bounds=bounds_of(jobs),
            ),
            assumptions=assumptions_of(prop),
        )
        os.makedirs(os.path.join(VERIF, "evidence"), exist_ok=True)
        json.dump(ev, open(os.path.join(VERIF, "evidence", prop + ".json"), "w"), indent=1, default=str)
    print(f"SUMMARY property={prop} tier={tier} status={status} jobs={len(jobs)} paths={agg['paths']} forks={agg['decisions']} "
          f"solver_checks={agg['checks']} validated={agg['validated']} solver_s={agg['solver_s']:.1f} wall={wall:.1f}s")
    if os.environ.get("VERIF_VERBOSE"):
        for r in sorted(results, key=lambda r: -r.get("wall", 0))[:15]:
            print("  job", r["job"]["h"], json.dumps(r["job"]["p"]), r["status"], "paths", r.get("stats", {}).get("paths"), "wall", r.get("wall"))
    sys.exit(1 if lines else 3 if inconc else 0)


def bounds_of(jobs):
    b = {}
    for j in jobs:
        for k, v in j["p"].items():
            if isinstance(v, (int, str)) or v is None:
                s = b.setdefault(j["h"], {}).setdefault(k, [])
                if v not in s:
                    s.append(v)
    return b


def assumptions_of(prop):
    path = os.path.join(VERIF, "harness", "assumptions.json")
    base = [
        "trusted base: z3 5.1.0 (fresh solver per query, tactic/re-parse/external-binary ladder on unknown), CPython, the symx executor, "
        "the symbolic numpy shim (validated per path against real numpy by witness replay and by selftest/), the declarative oracle "
        "(cross-checked by an independent executable list-of-rows reference at replay)",
        "bounds as listed under coverage.bounds; arrays beyond them, >2 dimensions and index magnitudes near the index dtype's limits are outside the claim",
        "numeric results of numpy's own C loops on floats are abstracted (uninterpreted) where stated; file system behind save/load is stubbed",
    ]
    if os.path.exists(path):
        base += json.load(open(path)).get(prop, [])
    return base


if __name__ == "__main__":
    main()
