import sys, json
for line in sys.stdin:
    if line.startswith("RESULT "):
        r = json.loads(line[7:])
        r.pop("functions", None); 
        st = r.pop("stats"); 
        print("status", r["status"], "wall", r["wall"], "paths", st["paths"], "pruned", st["pruned"], "checks", st["checks"], "solver_s", round(st["solver_s"],1), "hits", st["model_hits"], "validated", r["validated"], "softexc", r["soft_exc_mismatch"])
        for v in r["violations"][:2]: print("VIOL", json.dumps(v)[:1500])
        for v in r["inconclusive"][:2]: print("INCONC", json.dumps(v)[:2500])
    else:
        print(line, end="")
