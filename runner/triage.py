"""dev helper: print what is under replays/<prop>/"""
import json, glob, sys
prop = sys.argv[1]
seen = set()
for f in sorted(glob.glob(f'/verif/replays/{prop}/*.json')):
    d = json.load(open(f))
    if 'detail' in d:
        det = d['detail']
        k = (det.get('reason'), str(det.get('detail'))[-700:])
        if k in seen: continue
        seen.add(k)
        print(f.split('/')[-1], d['job']['h'], json.dumps(d['job']['p']), k[0], '\n', k[1], '\n   CASE', json.dumps(det.get('case'))[:500], '\n   SYM', json.dumps(det.get('sym_got'))[:300], '\n   REAL', json.dumps(det.get('real_got', det.get('got')))[:300], '\n   EXP', json.dumps(det.get('exp'))[:300])
    else:
        k = (json.dumps(d['got'])[:80], json.dumps(d['exp'])[:40], d['job'].get('kind'), d['job'].get('op'))
        if k in seen: continue
        seen.add(k)
        print(f.split('/')[-1], d.get('how'), json.dumps(d.get('job')), '\n   CASE', json.dumps(d['case'])[:500], '\n   GOT', json.dumps(d['got'])[:300], '\n   EXP', json.dumps(d['exp'])[:300])
