"""One job = one harness instance explored exhaustively.  Runs under python3-vt with the shim as `numpy`.
usage: python3-vt -m runner.worker <job.json>   (prints one JSON result line prefixed with 'RESULT ')
"""
import json
import os
import subprocess
import sys
import time
import traceback

VERIF = os.path.dirname(os.path.dirname(os.path.abspath(__file__)))
REPO = os.environ.get("VERIF_REPO", "/repo")
sys.path[:0] = [os.path.join(VERIF, "shim"), VERIF, REPO]

import z3  # noqa: E402
from symx import engine  # noqa: E402
import numpy as np  # noqa: E402  (the shim)
from harness import common  # noqa: E402


class ReplayClient:
    def __init__(self):
        self.p = None

    def _start(self):
        env = dict(os.environ)
        env["VERIF_REPO"] = REPO
        self.p = subprocess.Popen(["/venv/bin/python", "-u", os.path.join(VERIF, "replay", "server.py")],
                                  stdin=subprocess.PIPE, stdout=subprocess.PIPE, text=True, env=env, cwd=VERIF)

    def run(self, case):
        if self.p is None or self.p.poll() is not None:
            self._start()
        self.p.stdin.write(json.dumps(case) + "\n")
        self.p.stdin.flush()
        while True:
            line = self.p.stdout.readline()
            if not line:
                return {"error": "replay server died"}
            if line.startswith("REPLAY "):
                return json.loads(line[7:])

    def close(self):
        if self.p is not None:
            try:
                self.p.stdin.close()
                self.p.wait(timeout=5)
            except Exception:
                self.p.kill()


def evaltree(m, t):
    """replace every z3 leaf of a JSON-like tree by its value under model m (model completion on)"""
    if isinstance(t, dict):
        return {k: evaltree(m, v) for k, v in t.items()}
    if isinstance(t, (list, tuple)):
        return [evaltree(m, v) for v in t]
    if hasattr(t, "val") and hasattr(t, "weak"):
        return evaltree(m, t.val)
    if z3.is_expr(t):
        if _has_uf(t):
            return "?"           # value abstracted by an uninterpreted function: not comparable with a concrete run
        v = m.eval(t, model_completion=True)
        v = z3.simplify(v)
        if z3.is_int_value(v) or z3.is_bv_value(v):
            return v.as_long()
        if z3.is_true(v):
            return True
        if z3.is_false(v):
            return False
        if z3.is_fp_value(v) or z3.is_rational_value(v):
            return str(v)
        return "?"
    if isinstance(t, (int, str, bool, float)) or t is None:
        return t
    return str(t)


_UF_MEMO = {}
engine.RESET_HOOKS.append(_UF_MEMO.clear)


def _has_uf(t):
    k = t.get_id()
    r = _UF_MEMO.get(k)
    if r is not None and r[0].eq(t):
        return r[1]
    v = False
    if z3.is_app(t):
        d = t.decl()
        if d.kind() == z3.Z3_OP_UNINTERPRETED and d.arity() > 0 and not d.name().startswith(("bits", "unbits")):
            v = True
        elif d.kind() == z3.Z3_OP_UNINTERPRETED and d.arity() == 0 and d.name().startswith("n_empty"):
            v = True        # uninitialised memory (np.empty): any value
        else:
            for c in t.children():
                if _has_uf(c):
                    v = True
                    break
    _UF_MEMO[k] = (t, v)
    return v


class FuncRecorder:
    def __init__(self):
        self.funcs = set()
        self.prefix = os.path.join(REPO, "npstructures")

    def __call__(self, frame, event, arg):
        if event == "call":
            co = frame.f_code
            if co.co_flags & 0x2 and co.co_filename.startswith(self.prefix):
                self.funcs.add(os.path.relpath(co.co_filename, REPO) + ":" + getattr(co, "co_qualname", co.co_name))


def run_job(job):
    mod = __import__("harness." + job["module"], fromlist=["x"])
    H = common.HARNESSES[job["h"]]
    p = job["p"]
    kf_active = set(job.get("kf_active", []))
    deadline = time.time() + job.get("budget_s", 600)
    E = engine.Engine(timeout_ms=job.get("solver_timeout_ms", 20000), deadline=deadline, max_paths=job.get("max_paths", 200000))
    engine.set_current(E)
    rc = ReplayClient()
    rec = FuncRecorder()
    res = dict(job=job, status="holds", violations=[], inconclusive=[], samples=[], validated=0, soft_exc_mismatch=0,
               witness_skipped=0, reach=0)
    vacuity = job.get("vacuity", False)
    validate_every = job.get("validate_every", 1)
    t0 = time.time()

    def fn(E):
        if E.stats["paths"] + E.stats["pruned"] < 2:
            sys.setprofile(rec)
        try:
            return H["sym"](E, p, kf_active)
        finally:
            sys.setprofile(None)

    def on_path(E, out):
        goal = out["goal"] if not vacuity else False
        pathno = E.stats["paths"]
        try:
            cex = E.prove(goal)
        except engine.Unknown as ex:
            # the solver could not decide this path's query: before giving up, run the path's witness on the real code -- a concrete,
            # replayed disagreement with the executable reference is a violation no matter what the solver could not finish
            m = E.model()
            if m is not None:
                case = evaltree(m, out["case"])
                case["h"] = job["h"]; case["module"] = job["module"]
                v = rc.run(case)
                if "error" not in v and not v["ok"]:
                    try:
                        matched = mod.kf_match(case) if hasattr(mod, "kf_match") else []
                    except Exception:
                        matched = []          # a case of another harness of the module: no known-finding predicate describes it
                    kn = [k for k in matched if k in kf_active]
                    res["violations"].append(dict(case=case, got=v["got"], exp=v["exp"], how="path-witness-replay (solver query undecided)",
                                                  path=E.path_descr(), known=kn[0] if kn else None))
                    if not kn:
                        return {"stop": True}
            res["inconclusive"].append(dict(reason="unknown", detail=str(ex)[:400], path=E.path_descr()))
            return {"stop": True}
        if vacuity:
            if cex is not None:
                res["reach"] += 1
            return {}
        if cex is not None:
            case = evaltree(cex, out["case"])
            case["h"] = job["h"]; case["module"] = job["module"]
            v = rc.run(case)
            if "error" in v:
                res["inconclusive"].append(dict(reason="replay-error", detail=v["error"][-600:], case=case))
                return {"stop": True}
            if not v["ok"]:
                try:
                    matched = mod.kf_match(case) if hasattr(mod, "kf_match") else []
                except Exception:
                    matched = []          # a case of another harness of the module: no known-finding predicate describes it
                kn = [k for k in matched if k in kf_active]
                res["violations"].append(dict(case=case, got=v["got"], exp=v["exp"], how="solver-counterexample", path=E.path_descr(),
                                              known=kn[0] if kn else None))
                return {} if kn else {"stop": True}
            res["inconclusive"].append(dict(reason="unreproduced-cex", case=case, got=v["got"], exp=v["exp"],
                                            sym_got=evaltree(cex, out.get("got"))))
            return {"stop": True}
        # goal valid on this path: validate the path's witness against the real implementation
        if pathno % validate_every == 0 or pathno <= 3:
            m = E.model()
            if m is None:
                # the path condition of a path that was explored to its end is unsatisfiable: the re-execution mis-aligned with the
                # decision tree (non-deterministic harness / simplification).  Nothing derived from this job can be trusted.
                res["inconclusive"].append(dict(reason="unsat-path", detail="explored path has an unsatisfiable path condition (executor mis-alignment)", path=E.path_descr()))
                return {"stop": True}
            case = evaltree(m, out["case"])
            case["h"] = job["h"]; case["module"] = job["module"]
            v = rc.run(case)
            if "error" in v:
                res["inconclusive"].append(dict(reason="replay-error", detail=v["error"][-600:], case=case))
                return {"stop": True}
            if not v["ok"]:
                try:
                    matched = mod.kf_match(case) if hasattr(mod, "kf_match") else []
                except Exception:
                    matched = []          # a case of another harness of the module: no known-finding predicate describes it
                kn = [k for k in matched if k in kf_active]
                res["violations"].append(dict(case=case, got=v["got"], exp=v["exp"], how="path-witness-replay", path=E.path_descr(),
                                              known=kn[0] if kn else None))
                return {} if kn else {"stop": True}
            if out.get("got") is not None:
                sg = evaltree(m, out["got"])
                if not common.obs_equal(sg, v["got"], strict_exc=False, float_eq=True):
                    res["inconclusive"].append(dict(reason="shim-mismatch", case=case, sym_got=sg, real_got=v["got"]))
                    return {"stop": True}
                if isinstance(sg, dict) and sg.get("k") == "raise" and sg.get("exc") != v["got"].get("exc"):
                    res["soft_exc_mismatch"] += 1
            res["validated"] += 1
            if len(res["samples"]) < 3:
                res["samples"].append(dict(path=E.path_descr(), witness=case))
        return {}

    try:
        E.explore(fn, on_path)
    except engine.Unknown as ex:
        res["inconclusive"].append(dict(reason="unknown", detail=str(ex)[:400]))
    except np.ShimUnsupported as ex:
        res["inconclusive"].append(dict(reason="shim-unsupported", detail=str(ex)[:400], path=E.path_descr()))
    except BaseException as ex:  # harness bug
        res["inconclusive"].append(dict(reason="harness-error", detail=traceback.format_exc()[-1500:]))
    finally:
        sys.setprofile(None)
        rc.close()
    if [v for v in res["violations"] if not v.get("known")]:
        res["status"] = "violation"
    elif res["inconclusive"]:
        res["status"] = "inconclusive"
    res["stats"] = E.stats
    res["wall"] = round(time.time() - t0, 2)
    res["functions"] = sorted(rec.funcs)
    return res


def main():
    job = json.load(open(sys.argv[1])) if len(sys.argv) > 1 and os.path.exists(sys.argv[1]) else json.loads(sys.stdin.read())
    res = run_job(job)
    print("RESULT " + json.dumps(res, default=str))


if __name__ == "__main__":
    main()
